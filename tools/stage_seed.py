#!/usr/bin/env python3
"""stage_seed.py <prop> <agent-out-dir>/<name> <demo_pkg_dir> : copy an agent's change into seeded/<prop>-<name> with a provisional meta.json"""
import json, os, shutil, sys
prop, src, pkgdir = sys.argv[1:4]
sid = prop + '-' + os.path.basename(src.rstrip('/'))
dst = f'/verif/seeded/{sid}'
os.makedirs(dst, exist_ok=True)
for f in ('patch.diff', 'zz_seed_demo_test.go', 'notes.md'):
    shutil.copy(os.path.join(src, f), dst)
json.dump({"id": sid, "property": prop, "demo_package_dir": pkgdir, "needs_to_manifest": "", "confirmed_by": "PENDING", "detected_by": "PENDING",
           "origin": "independent sub-agent given only the property text and a scratch worktree"}, open(f'{dst}/meta.json', 'w'), indent=1)
print(sid)
