#!/bin/bash
# confirm_seed.sh <name> <patch.diff> <demo_test.go> <pkgdir> <stubscript|-> <test packages...>
# Confirms a seeded change in a fresh scratch worktree: demo passes without the patch,
# existing tests pass with it, demo fails with it. Removes the worktree afterwards.
set -u
export GOFLAGS=-mod=mod GOPROXY=off GOSUMDB=off GOTOOLCHAIN=local PATH=/opt/veriftools/go1.26.8/bin:$PATH
name="$1"; patch="$2"; demo="$3"; pkgdir="$4"; stub="$5"; shift 5
wt=/tmp/confirm-$name
rm -rf "$wt"; /verif/tools/mkworktree.sh "$wt" >/dev/null || exit 2
cleanup() { git -C /repo worktree remove --force "$wt" 2>/dev/null; rm -rf "$wt"; }
trap cleanup EXIT
cd "$wt"; export PKG_CONFIG_PATH=$wt/vm/rust/target/jemalloc-shim/pkgconfig
[ "$stub" != "-" ] && (bash "$stub" "$wt" >/dev/null 2>&1 || (cd "$wt" && bash "$stub" >/dev/null 2>&1))
mkdir -p "$pkgdir"
cp "$demo" "$pkgdir/zz_seed_demo_test.go"
echo "== demo WITHOUT the change"
go test -count=1 -vet=off "./$pkgdir" -run 'Seed|Demo|Verif' 2>&1 | tail -3; r1=${PIPESTATUS[0]}
rm "$pkgdir/zz_seed_demo_test.go"
git apply "$patch" || { echo "patch does not apply"; exit 2; }
echo "== existing tests WITH the change: $*"
go test -count=1 -vet=off "$@" 2>&1 | grep -v "^ok\|no test files" | tail -15; r2=${PIPESTATUS[0]}
cp "$demo" "$pkgdir/zz_seed_demo_test.go"
echo "== demo WITH the change"
go test -count=1 -vet=off "./$pkgdir" -run 'Seed|Demo|Verif' 2>&1 | tail -8; r3=${PIPESTATUS[0]}
echo "RESULT name=$name demo_without=$r1 (want 0) existing_with=$r2 (want 0) demo_with=$r3 (want !=0)"
[ $r1 -eq 0 ] && [ $r2 -eq 0 ] && [ $r3 -ne 0 ]
