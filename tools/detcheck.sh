#!/bin/bash
# detcheck.sh <prop> <pkgs...> : generate the SMT queries of a property twice and compare them.
# The same source must give the same query text on every run (Go's randomised map iteration once
# leaked into generated names and made a refutation come and go). Exit 1 if they differ.
p=$1; shift
a=$(mktemp -d /tmp/gocv-det-XXXX); b=$(mktemp -d /tmp/gocv-det-XXXX)
/verif/bin/gocv verify -prop $p -dump $a "$@" >/dev/null 2>&1
/verif/bin/gocv verify -prop $p -dump $b "$@" >/dev/null 2>&1
n=$(ls $a | wc -l); d=$(diff -rq $a $b | wc -l); echo "determinism $p: queries=$n differ=$d"; diff -rq $a $b | head -2
rm -rf $a $b
[ "$n" -gt 0 ] && [ "$d" -eq 0 ]
