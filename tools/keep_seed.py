#!/usr/bin/env python3
"""keep_seed.py <id> <property> <change_dir> <pkgdir> <needs> <ran> <detected_by>"""
import json, os, shutil, sys
sid, prop, src, pkgdir, needs, ran, det = sys.argv[1:8]
dst = os.path.join('/verif/seeded', sid)
os.makedirs(dst, exist_ok=True)
shutil.copy(os.path.join(src, 'patch.diff'), dst)
shutil.copy(os.path.join(src, 'zz_seed_demo_test.go'), dst)
if os.path.exists(os.path.join(src, 'notes.md')):
    shutil.copy(os.path.join(src, 'notes.md'), dst)
json.dump({"id": sid, "property": prop, "demo_package_dir": pkgdir, "needs_to_manifest": needs,
           "confirmed_by": ran, "detected_by": det, "origin": "independent sub-agent given only the property text and a scratch worktree"},
          open(os.path.join(dst, 'meta.json'), 'w'), indent=1)
print("kept", dst)
