#!/bin/bash
# runs every claimed quick check on the current tree; prints only problems
cd /verif
bad=0
for p in $(python3 -c "import json;print(' '.join(c['property_id'] for c in json.load(open('MANIFEST.json'))['checks']))"); do
  out=$(./check $p 2>&1); rc=$?
  line=$(echo "$out" | tail -1)
  if [ $rc -ne 0 ] || ! echo "$line" | grep -Eq "undecided=0 known=[0-9]+ violations=0"; then echo "PROBLEM $p rc=$rc: $line"; echo "$out" | grep -E "VIOLATION|UNDECIDED|ENGINE" | head -5; bad=1; fi
done
[ $bad -eq 0 ] && echo "all checks clean"
exit $bad
