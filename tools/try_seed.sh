#!/bin/bash
# try_seed.sh <prop> <patch.diff> : apply a seeded change to /repo, run the property's quick check
# into a scratch verif dir, undo the change. /repo must have no uncommitted edits.
set -u
prop="$1"; patch="$2"
if [ -n "$(git -C /repo status --porcelain)" ]; then echo "/repo is not clean"; exit 2; fi
sc=$(mktemp -d /tmp/gocv-seed-XXXX)
cp -r /verif/expected "$sc/expected"; cp /verif/known-findings.txt "$sc/"
git -C /repo apply "$patch" || { echo "patch does not apply"; rm -rf "$sc"; exit 2; }
/verif/bin/gocv check -prop "$prop" -verif "$sc" 2>&1 | grep -E '^(VIOLATION|UNDECIDED|KNOWN|summary|check)|refuted:|replay:' | cut -c1-400
rc=${PIPESTATUS[0]}
git -C /repo checkout -- . ; git -C /repo status --porcelain | grep -v '^??'
for f in "$sc"/replays/*/*.json; do [ -f "$f" ] && python3 -c "
import json,sys
d=json.load(open('$f')); print('replay_status:', d.get('replay_status'), d.get('obligation'))" ; done 2>/dev/null | head -5
rm -rf "$sc"
echo "exit=$rc"
