#!/bin/bash
# unrollcheck.sh [props...]: validation of the under-approximating mode with unrolling. On the unchanged
# tree every obligation that is discharged by the ordinary conditions must be unrefuted on the unrolled
# paths too (they are real paths): a REFUTED line here that is not a known finding is an engine defect.
cd /verif
pk=$(cd /repo; find . -name zz_contracts_verif.go | xargs -n1 dirname | sort -u | tr '\n' ' ')
props=${@:-C02 C03 C04 C05 C06 C07 C08 C09 C10 C11 C12 C13 C14 C15 C16 C17 C18 C19 C20}
bad=0
for p in $props; do
  out=$(bin/gocv verify -unroll 3 -prop $p $pk 2>&1 | grep "^REFUTED" | grep -v "memory_follows_commit")
  if [ -n "$out" ]; then echo "== $p"; echo "$out" | cut -c1-200; bad=1; fi
done
[ $bad -eq 0 ] && echo "unrolled mode: nothing refuted on the unchanged tree (known findings aside)"
exit $bad
