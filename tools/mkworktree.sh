#!/bin/sh
# mkworktree.sh <dir>: scratch worktree of /repo without the contract files (pristine snapshot + fix: commits)
set -e
dir="$1"
base=$(git -C /repo log --format=%h --reverse | head -1)
git -C /repo worktree add -q --detach "$dir" "$base"
for c in $(git -C /repo log --reverse --format='%h %s' | grep ' fix:' | cut -d' ' -f1); do
  git -C "$dir" cherry-pick "$c" >/dev/null
done
echo "$dir ready at $(git -C "$dir" log --oneline | head -1)"
