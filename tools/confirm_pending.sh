#!/bin/bash
# confirm_pending.sh: confirms every staged seeded change whose meta.json says confirmed_by == PENDING,
# one after the other (fresh scratch worktree each, removed afterwards); results appended to /tmp/confirm.log
cd /verif
for d in seeded/*/; do
  id=$(basename $d)
  [ -f $d/meta.json ] || continue
  grep -q '"confirmed_by": "PENDING"' $d/meta.json || continue
  prop=$(python3 -c "import json;print(json.load(open('$d/meta.json'))['property'])")
  pkgdir=$(python3 -c "import json;print(json.load(open('$d/meta.json'))['demo_package_dir'])")
  case $prop in
    C14) pk="./consensus/walstore/ ./consensus/driver/ ./consensus/tendermint/";;
    C11) pk="./jsonrpc/...";;
    C20) pk="./sync/preconfirmed/... ./adapters/sn2core/... ./blockchain/...";;
    C05) pk="./blockchain/... ./core/ ./pruner/... ./db/...";;
    C01) pk="./core/... ./blockchain/...";;
    C04) pk="./blockchain/... ./core/... ./pruner/...";;
    C03) pk="./core/... ./blockchain/...";;
    C17) pk="./l1/... ./node/...";;
    C10) pk="./core/trie/... ./core/trie2/... ./core/state/... ./rpc/v10/ ./rpc/v9/ ./rpc/v8/";;
    C13) pk="./consensus/driver/... ./consensus/tendermint/... ./consensus/walstore/... ./consensus/votecounter/...";;
    C02) pk="./core/... ./blockchain/... ./adapters/sn2core/...";;
    C07) pk="./core/... ./db/... ./blockchain/... ./encoder/...";;
    C16) pk="./pruner/... ./blockchain/... ./core/ ./migration/...";;
    C18) pk="./migration/... ./node/...";;
    *) pk="./$pkgdir/...";;
  esac
  echo "#### $id" >> /tmp/confirm.log
  nice -n 5 tools/confirm_seed.sh $id $PWD/$d/patch.diff $PWD/$d/zz_seed_demo_test.go $pkgdir $PWD/seeded/stubs/mkstubs_rpc.sh $pk >> /tmp/confirm.log 2>&1
done
echo "#### ALL DONE" >> /tmp/confirm.log
