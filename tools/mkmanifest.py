#!/usr/bin/env python3
"""Regenerates /verif/MANIFEST.json from tools/claims.json (what is built and discharging) and
the hook commits recorded in tools/hooks.txt. Properties not in claims.json are listed under
not_applicable with the reason given in tools/not_applicable.json."""
import json, os, subprocess
root = os.path.dirname(os.path.dirname(os.path.abspath(__file__)))
claims = json.load(open(os.path.join(root, 'tools', 'claims.json')))
na = json.load(open(os.path.join(root, 'tools', 'not_applicable.json')))
hooks = [l.split()[0] for l in open(os.path.join(root, 'tools', 'hooks.txt')) if l.strip() and not l.startswith('#')]
base = json.load(open('/root/.vp/BASELINE.json'))
props = [json.loads(l)['id'] for l in open(os.path.join(root, 'properties.jsonl'))]
checks = []
for pid in props:
    if pid not in claims:
        continue
    c = claims[pid]
    checks.append({
        "property_id": pid,
        "quick_cmd": f"./check {pid} --tier quick",
        "thorough_cmd": f"./check {pid} --tier thorough",
        "evidence_file": f"/verif/evidence/{pid}.json",
        "replay_cmd_template": "./check --replay {path}",
        "engine": "gocv",
        "level_claimed": {"category": "proof", "text": c["text"], "design_ref": c.get("design_ref", "DESIGN.md §7 " + pid)},
        "level_note": c["note"],
        "technique": c.get("technique", "contract-based deductive verification: weakest-precondition VCs generated from go/ssa of the real functions, contracts in guarded comment files in /repo, discharged by z3/cvc5"),
    })
m = {
    "version": 1,
    "setup_cmd": "./build.sh && ./warm.sh",
    "hooks": {
        "guard": "verif",
        "enable": "-tags=verif (comment-only contract files zz_contracts_verif.go; they compile to nothing)",
        "baseline_off_cmd": base["cmd"],
        "source_commits": hooks,
        "add_only": True,
    },
    "engines": [{"name": "gocv", "path": "/verif/gocv", "serves_properties": [c["property_id"] for c in checks],
                 "kind_free_text": "self-written contract verifier for Go: contract parser (//@ comments), weakest-precondition / passive-form VC generator over go/ssa (x/tools v0.50.0, go1.26.8), SMT-LIB back end raced on z3-new 5.1.0, cvc5 1.0, z3 4.8.12; counterexamples replayed on the real code with go test -overlay"}],
    "checks": checks,
    "not_applicable": [{"property_id": p, "reason": na.get(p, "kernels planned in DESIGN.md §7 are not built yet; nothing is claimed")} for p in props if p not in claims],
    "notes": "Every check regenerates its obligations from /repo's working tree. Exit 1 only for a refuted obligation (replayed on the real code where the inputs can be constructed, otherwise marked no-failing-input-found); unknown/timeouts are UNDECIDED and downgrade the evidence level to 'other'. See DESIGN.md.",
}
json.dump(m, open(os.path.join(root, 'MANIFEST.json'), 'w'), indent=1)
print("wrote MANIFEST.json with", len(checks), "checks")
