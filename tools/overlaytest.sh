#!/bin/sh
# usage: overlaytest.sh <repo> <pkgdir-relative> <testfile> <run-regexp>
# runs an in-package test file against the repo without writing into it
export GOFLAGS=-mod=mod GOPROXY=off GOSUMDB=off GOTOOLCHAIN=local PATH=/opt/veriftools/go1.26.8/bin:$PATH
repo="$1"; pkg="$2"; tf="$3"; run="$4"
tmp=$(mktemp -d)
printf '{"Replace":{"%s/%s/%s":"%s"}}' "$repo" "$pkg" "$(basename $tf)" "$(realpath $tf)" > $tmp/ov.json
(cd "$repo/$pkg" && go test -overlay $tmp/ov.json -vet=off -count=1 -timeout 120s -run "$run" . 2>&1 | tail -15)
rc=$?
rm -rf $tmp
exit $rc
