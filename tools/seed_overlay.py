#!/usr/bin/env python3
"""seed_overlay.py [-j N] [ids...]: run each kept seeded change against its property's quick check
through file overlays (nothing is written to /repo); prints one line per change:
  CAUGHT <id> <first refuted obligation> | MISSED <id> (undecided=N) """
import json, os, re, subprocess, sys, tempfile, shutil, concurrent.futures
root = '/verif'
args = sys.argv[1:]
jobs = 3
if args and args[0] == '-j':
    jobs = int(args[1]); args = args[2:]
ids = args or sorted(d for d in os.listdir(f'{root}/seeded') if os.path.exists(f'{root}/seeded/{d}/patch.diff'))
def run(sid):
    d = f'{root}/seeded/{sid}'
    meta = json.load(open(f'{d}/meta.json'))
    props = [meta['property']] + meta.get('also', [])
    tmp = tempfile.mkdtemp(prefix='gocv-seedov-')
    try:
        patch = open(f'{d}/patch.diff').read()
        files = re.findall(r'^\+\+\+ b/(\S+)', patch, re.M)
        for f in files:
            os.makedirs(os.path.dirname(f'{tmp}/src/{f}'), exist_ok=True)
            if os.path.exists(f'/repo/{f}'):
                shutil.copy(f'/repo/{f}', f'{tmp}/src/{f}')
        r = subprocess.run(['patch', '-p1', '-s', '-d', f'{tmp}/src', '-i', f'{d}/patch.diff'], capture_output=True, text=True)
        if r.returncode != 0:
            return sid, 'STALE', r.stdout[-300:]
        res = []
        for prop in props:
            vdir = f'{tmp}/verif-{prop}'
            os.makedirs(vdir)
            shutil.copytree(f'{root}/expected', f'{vdir}/expected')
            shutil.copy(f'{root}/known-findings.txt', vdir)
            cmd = [f'{root}/bin/gocv', 'check', '-prop', prop, '-verif', vdir]
            for f in files:
                cmd += ['-overlay-file', f'/repo/{f}={tmp}/src/{f}']
            p = subprocess.run(cmd, capture_output=True, text=True, timeout=1800)
            out = p.stdout + p.stderr
            ref = [l.strip()[9:] for l in out.splitlines() if l.strip().startswith('refuted:')]
            und = [l for l in out.splitlines() if l.startswith('UNDECIDED')]
            if p.returncode == 1 and ref:
                return sid, 'CAUGHT', f'{prop}: ' + ref[0].replace('github.com/NethermindEth/juno/', '') + (f' (+{len(ref)-1})' if len(ref) > 1 else '')
            res.append(f'{prop}: rc={p.returncode} undecided={len(und)}' + (' ' + und[0][:200] if und else ''))
        return sid, 'MISSED', '; '.join(res)
    finally:
        shutil.rmtree(tmp, ignore_errors=True)
with concurrent.futures.ThreadPoolExecutor(max_workers=jobs) as ex:
    for sid, st, det in ex.map(run, ids):
        print(f'{st:6} {sid}  {det}', flush=True)
