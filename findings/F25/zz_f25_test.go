package tendermint

// F25 (C13): ProcessStart hands the driver a WAL "start of height" entry that POINTS INTO the state
// machine's live state ((*wal.Start)(&s.state.height)). When the same ProcessStart call runs through
// to the commit of that height - a lagging validator that already holds the proposal and a quorum of
// precommits when it starts the height - the height has been incremented before the driver reads the
// entry: the log records "start of height H+1" while the node was starting H. A later replay of
// height H+1 meets this stray marker before the real one and before messages that were logged early,
// treats them as live inputs and can take a different path than the original run.
// Fails before the fix, passes after it.

import (
	"testing"

	"github.com/NethermindEth/juno/consensus/starknet"
	"github.com/NethermindEth/juno/consensus/types"
	"github.com/NethermindEth/juno/consensus/types/wal"
	"github.com/NethermindEth/juno/utils/log"
	"github.com/stretchr/testify/require"
)

func TestVerifF25StartEntryNamesTheHeightThatWasStarted(t *testing.T) {
	vals := newVals()
	for i := range 4 {
		vals.addValidator(*getVal(i))
	}
	node := New(log.NewNopZapLogger(), *getVal(3), newApp(), vals, types.Height(0)).(*testStateMachine)

	header := func(sender int) starknet.MessageHeader {
		return starknet.MessageHeader{Height: 0, Round: 0, Sender: *getVal(sender)}
	}
	v0 := value(10)
	// everything for height 0 arrives before the node starts it (parked in the vote counter)
	require.Empty(t, node.ProcessProposal(&starknet.Proposal{MessageHeader: header(0), ValidRound: -1, Value: &v0}))
	for _, sender := range []int{0, 1, 2} {
		require.Empty(t, node.ProcessPrecommit(&starknet.Precommit{MessageHeader: header(sender), ID: new(v0.Hash())}))
	}

	actions := node.ProcessStart(0)
	require.NotEmpty(t, actions)
	writeWAL, ok := actions[0].(*starknet.WriteWAL)
	require.True(t, ok, "the first action of a start is its WAL entry")
	start, ok := writeWAL.Entry.(*wal.Start)
	require.True(t, ok)

	committed := false
	for _, action := range actions {
		if _, isCommit := action.(*starknet.Commit); isCommit {
			committed = true
		}
	}
	require.True(t, committed, "the scenario: the start runs through to the commit of the height")
	// what the driver reads when it executes the action list, after ProcessStart has returned
	require.Equal(t, types.Height(0), start.GetHeight(),
		"the start entry of height 0 reads as the start of another height by the time it is logged")
}
