package blockchain

import (
	"testing"

	"github.com/NethermindEth/juno/blockchain/statebackend"
	"github.com/NethermindEth/juno/core"
	"github.com/NethermindEth/juno/core/felt"
	"github.com/NethermindEth/juno/db/memory"
	"github.com/bits-and-blooms/bloom/v3"
)

// F5b: a cached bloom window must not survive a reorg that rewrites it. The state backend is
// replaced by one that only maintains the running event filter (which is what RevertHead does to
// it); everything else is the real code: RunningEventFilter, the persisted windows, the cache,
// the matched-block iterator and Blockchain.RevertHead.
type f5bBackend struct {
	statebackend.StateBackend
	filter *core.RunningEventFilter
}

func (b f5bBackend) RevertHead() error { return b.filter.OnReorg() }

func f5bBloom(addr *felt.Felt) *bloom.BloomFilter {
	b := bloom.New(core.EventsBloomLength, core.EventsBloomHashFuncs)
	if addr != nil {
		bs := addr.Bytes()
		b.Add(bs[:])
	}
	return b
}

func f5bCandidates(t *testing.T, chain *Blockchain, addr *felt.Felt, from, to uint64) []uint64 {
	m := NewEventMatcher([]felt.Address{felt.Address(*addr)}, nil)
	it, err := chain.cachedFilters.NewMatchedBlockIterator(from, to, 0, &m, chain.runningFilter)
	if err != nil {
		t.Fatal(err)
	}
	var out []uint64
	for {
		n, ok, err := it.Next()
		if err != nil {
			t.Fatal(err)
		}
		if !ok {
			return out
		}
		out = append(out, n)
	}
}

func TestF5bCachedWindowSurvivesReorg(t *testing.T) {
	d := memory.New()
	first := core.NewAggregatedFilter(0)
	rf := core.NewRunningEventFilterHot(d, &first, 0)
	cache := NewAggregatedBloomCache(AggregatedBloomFilterCacheSize)
	cache.WithFallback(func(key EventFiltersCacheKey) (core.AggregatedBloomFilter, error) {
		return core.GetAggregatedBloomFilter(d, key.fromBlock, key.toBlock)
	})
	chain := &Blockchain{cachedFilters: cache, runningFilter: rf, stateBackend: f5bBackend{filter: rf}}

	oldEmitter := felt.NewFromUint64[felt.Felt](0xAAAA)
	newEmitter := felt.NewFromUint64[felt.Felt](0xBBBB)
	last := core.NumBlocksPerFilter - 1 // 8191, the last block of the first window

	// chain 1: blocks 0..8192; block 8191 has an event from oldEmitter
	for n := uint64(0); n <= last+1; n++ {
		var a *felt.Felt
		if n == last {
			a = oldEmitter
		}
		if err := rf.Insert(f5bBloom(a), n); err != nil {
			t.Fatal(err)
		}
	}
	// a query caches the persisted window [0,8191]
	_ = f5bCandidates(t, chain, oldEmitter, 0, last+1)
	// reorg of depth 2 across the window boundary
	if err := chain.RevertHead(); err != nil {
		t.Fatal(err)
	}
	if err := chain.RevertHead(); err != nil {
		t.Fatal(err)
	}
	// chain 2: block 8191 now has an event from newEmitter
	if err := rf.Insert(f5bBloom(newEmitter), last); err != nil {
		t.Fatal(err)
	}
	if err := rf.Insert(f5bBloom(nil), last+1); err != nil {
		t.Fatal(err)
	}
	got := f5bCandidates(t, chain, newEmitter, 0, last+1)
	found := false
	for _, n := range got {
		if n == last {
			found = true
		}
	}
	if !found {
		t.Fatalf("event query for the new chain's block %d omits it: candidates %v (the cached pre-reorg window is still used)", last, got)
	}
}
