package migration_test

import (
	"context"
	"testing"

	"github.com/NethermindEth/juno/blockchain/networks"
	"github.com/NethermindEth/juno/db"
	"github.com/NethermindEth/juno/db/memory"
	"github.com/NethermindEth/juno/migration"
	"github.com/NethermindEth/juno/utils/log"
	"github.com/stretchr/testify/require"
)

// F4 (C18): a migration that is cancelled and has no resumable state returns (nil, ctx.Err()).
// The runner used to record it as applied and return nil.
type f4Migration struct{ cancel context.CancelFunc }

func (m *f4Migration) Before([]byte) error { return nil }
func (m *f4Migration) Migrate(ctx context.Context, _ db.KeyValueStore, _ *networks.Network, _ log.StructuredLogger) ([]byte, error) {
	m.cancel()
	<-ctx.Done()
	return nil, ctx.Err()
}

func TestVerifF4CancelledWithoutStateIsNotApplied(t *testing.T) {
	testDB := memory.New()
	defer testDB.Close()
	ctx, cancel := context.WithCancel(context.Background())
	defer cancel()
	registry := migration.NewRegistry()
	registry.With(&f4Migration{cancel: cancel})
	runner, err := migration.NewRunner(registry, testDB, &networks.Mainnet, log.NewNopZapLogger())
	require.NoError(t, err)
	err = runner.Run(ctx)
	require.ErrorIs(t, err, context.Canceled)
	md, err := migration.GetSchemaMetadata(testDB)
	require.NoError(t, err)
	require.False(t, md.CurrentVersion.Has(0), "migration 0 was cancelled before completing but is recorded as applied")
}
