package deprecatedstate

import (
	"testing"

	"github.com/NethermindEth/juno/core"
	"github.com/NethermindEth/juno/core/felt"
	"github.com/NethermindEth/juno/db/memory"
)

// F3: reverting the head must succeed for every block the node was able to store. A block that
// writes zero to a never-written storage slot logs no history entry (the write is a no-op), and
// GetReverseStateDiff then failed with ErrCheckHeadState instead of using the head value.
func TestF3RevertBlockWithZeroWriteToFreshSlot(t *testing.T) {
	testDB := memory.New()
	txn := testDB.NewIndexedBatch()
	st := New(txn)

	addr := felt.NewFromUint64[felt.Felt](0x1234)
	classHash := felt.NewFromUint64[felt.Felt](0x99)
	written := felt.NewFromUint64[felt.Felt](2)
	fresh := felt.NewFromUint64[felt.Felt](7)
	su0 := &core.StateUpdate{
		OldRoot: new(felt.Felt),
		StateDiff: &core.StateDiff{
			DeployedContracts: map[felt.Felt]*felt.Felt{*addr: classHash},
			StorageDiffs: map[felt.Felt]map[felt.Felt]*felt.Felt{
				*addr: {*written: felt.NewFromUint64[felt.Felt](3)},
			},
		},
	}
	if err := st.Update(&core.Header{Number: 0}, su0, nil, true); err != nil {
		t.Fatal(err)
	}
	r0, err := st.Commitment("")
	if err != nil {
		t.Fatal(err)
	}
	su0.NewRoot = &r0
	// block 1: zero written to a slot that was never written, plus an ordinary write
	su1 := &core.StateUpdate{
		OldRoot: &r0,
		StateDiff: &core.StateDiff{
			StorageDiffs: map[felt.Felt]map[felt.Felt]*felt.Felt{
				*addr: {*fresh: new(felt.Felt), *written: felt.NewFromUint64[felt.Felt](5)},
			},
		},
	}
	if err := st.Update(&core.Header{Number: 1}, su1, nil, true); err != nil {
		t.Fatal(err)
	}
	r1, err := st.Commitment("")
	if err != nil {
		t.Fatal(err)
	}
	su1.NewRoot = &r1
	if err := st.Revert(&core.Header{Number: 1}, su1); err != nil {
		t.Fatalf("the node stored block 1 but cannot revert it: %v", err)
	}
	back, err := st.Commitment("")
	if err != nil {
		t.Fatal(err)
	}
	if !back.Equal(&r0) {
		t.Fatalf("state root after the revert is %s, want %s", back.String(), r0.String())
	}
}
