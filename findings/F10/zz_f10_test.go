package trie2

import (
	"testing"

	"github.com/NethermindEth/juno/core/crypto"
	"github.com/NethermindEth/juno/core/felt"
	"github.com/NethermindEth/juno/core/trie2/trienode"
)

// F10: trie2.VerifyProof hashes each proof node with hasher.hash, which returns the node's CACHED
// hash (Flags.Hash, copied onto proof nodes by Prove) without recomputing it. A proof whose node
// was altered but still carries the cached hash therefore verifies: here the leaf hash under the
// last binary node is replaced and VerifyProof returns the forged value for the key, with no
// error, against the unchanged root. ("a proof in which any node, the claimed value or the key is
// altered does not verify", C10.)
func TestF10TamperedNodeWithCachedHashVerifies(t *testing.T) {
	tr, err := NewEmptyPedersen()
	if err != nil {
		t.Fatal(err)
	}
	k0, v0 := new(felt.Felt).SetUint64(0), new(felt.Felt).SetUint64(2)
	k1, v1 := new(felt.Felt).SetUint64(1), new(felt.Felt).SetUint64(3)
	if err := tr.Update(k0, v0); err != nil {
		t.Fatal(err)
	}
	if err := tr.Update(k1, v1); err != nil {
		t.Fatal(err)
	}
	root, _ := tr.Hash()

	proof := NewProofNodeSet()
	if err := tr.Prove(k0, proof); err != nil {
		t.Fatal(err)
	}
	got, err := VerifyProof(&root, k0, proof, crypto.Pedersen)
	if err != nil || !got.Equal(v0) {
		t.Fatalf("honest proof: %v %v", got.String(), err)
	}

	// tamper: replace the claimed value of key 0 inside the binary node of the proof
	forged := new(felt.Felt).SetUint64(0xbad)
	tampered := 0
	for _, n := range proof.List() {
		if bn, ok := n.(*trienode.BinaryNode); ok {
			fh := trienode.HashNode(*forged)
			bn.Children[0] = &fh
			tampered++
		}
	}
	if tampered == 0 {
		t.Fatal("no binary node in the proof")
	}
	got, err = VerifyProof(&root, k0, proof, crypto.Pedersen)
	if err == nil {
		t.Fatalf("F10: the tampered proof verifies against the unchanged root and yields %s for key 0 (the trie holds %s)", got.String(), v0.String())
	}
}
