package trie_test

// F21 (C10): VerifyRangeProof accepted a range in which a key occurs twice (the check was
// "keys[i] > keys[i+1] is an error", the error message says "monotonic increasing"): the rebuilt
// trie keeps the LAST value written for the key, so a range that claims (k, forged) followed by
// (k, genuine) verifies against the unchanged root although the pair (k, forged) is false.
// Fails before the fix, passes after it.

import (
	"testing"

	"github.com/NethermindEth/juno/core/felt"
	"github.com/NethermindEth/juno/core/trie"
	"github.com/stretchr/testify/require"
)

func TestVerifF21DuplicateKeyInRangeIsRejected(t *testing.T) {
	n := 50
	tr, records := nonRandomTrie(t, n)
	root, err := tr.Hash()
	require.NoError(t, err)

	keys := make([]*felt.Felt, 0, n+1)
	values := make([]*felt.Felt, 0, n+1)
	forged := felt.NewFromUint64[felt.Felt](999_999)
	for i, record := range records {
		if i == n/2 {
			keys = append(keys, record.key) // the same key first, with a value the trie does not hold
			values = append(values, forged)
		}
		keys = append(keys, record.key)
		values = append(values, record.value)
	}

	_, err = trie.VerifyRangeProof(&root, nil, keys, values, nil)
	require.Error(t, err, "a range that claims a forged value for a key (followed by the genuine pair) verified")

	proof := trie.NewProofNodeSet()
	require.NoError(t, tr.GetRangeProof(records[0].key, records[n-1].key, proof))
	_, err = trie.VerifyRangeProof(&root, keys[0], keys, values, proof)
	require.Error(t, err, "with edge proofs: a range that claims a forged value for a key verified")
}
