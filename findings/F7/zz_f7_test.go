package jsonrpc_test

import (
	"context"
	"strings"
	"testing"

	"github.com/NethermindEth/juno/jsonrpc"
	"github.com/NethermindEth/juno/utils/log"
)

func TestF7NotificationUnknownMethod(t *testing.T) {
	server := jsonrpc.NewServer(1, log.NewNopZapLogger())
	for _, req := range []string{
		`{"jsonrpc": "2.0", "method": "doesNotExist"}`,
		`[{"jsonrpc": "2.0", "method": "doesNotExist"},{"jsonrpc": "2.0", "method": "neither"}]`,
	} {
		res, _, err := server.HandleReader(context.Background(), strings.NewReader(req))
		if err != nil {
			t.Fatal(err)
		}
		if len(res) != 0 {
			t.Errorf("notification(s) %s got a reply: %s", req, res)
		}
	}
}
