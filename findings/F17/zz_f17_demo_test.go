package blockchain_test

import (
	"testing"

	"github.com/NethermindEth/juno/blockchain"
	"github.com/NethermindEth/juno/blockchain/networks"
	"github.com/NethermindEth/juno/core"
	"github.com/NethermindEth/juno/core/felt"
	"github.com/NethermindEth/juno/db"
	"github.com/NethermindEth/juno/db/memory"
	"github.com/stretchr/testify/require"
)

// f17WriteBlock stores a synthetic canonical block holding the given receipts:
// header (with the real events bloom), transactions + receipts, and commitments.
func f17WriteBlock(
	t *testing.T,
	database db.KeyValueStore,
	number uint64,
	receipts []*core.TransactionReceipt,
) {
	t.Helper()
	txs := make([]core.Transaction, len(receipts))
	for i, receipt := range receipts {
		txs[i] = &core.InvokeTransaction{
			TransactionHash: receipt.TransactionHash,
			Version:         new(core.TransactionVersion).SetUint64(1),
		}
	}
	header := &core.Header{
		Number:      number,
		Hash:        felt.NewFromUint64[felt.Felt](0xb10c0000 + number),
		EventsBloom: core.EventsBloom(receipts),
	}
	require.NoError(t, core.WriteBlockHeader(database, header))
	require.NoError(t, core.WriteTransactionsAndReceipts(database, number, txs, receipts))
	require.NoError(t, core.WriteBlockCommitment(database, number, &core.BlockCommitments{}))
}

func f17Receipts(number uint64, emitter *felt.Felt) []*core.TransactionReceipt {
	return []*core.TransactionReceipt{{
		TransactionHash: felt.NewFromUint64[felt.Felt](0x7000000 + number),
		Events: []*core.Event{{
			From: emitter,
			Keys: []felt.Felt{felt.FromUint64[felt.Felt](0x77)},
		}},
	}}
}

// History:
//  1. the node synced the old fork up to block 6 and shut down gracefully, which wrote the
//     running-filter snapshot (next = 7); on the old fork only `oldEmitter` fired;
//  2. after the restart the chain was reorged below the snapshot point: blocks 6..3 were
//     reverted, the new blocks 3'..9' were stored, `newEmitter` fires in every one of them;
//  3. the node was killed (no snapshot written) and is started again.
//
// The database now holds the new fork (height 9) and the old snapshot (next = 7, behind the
// head, same window). Event queries after this start must find the events of 3'..9'.
func TestF17RestartWithSnapshotTakenBeforeAReorgBelowIt(t *testing.T) {
	oldEmitter := felt.NewFromUint64[felt.Felt](0x01d)
	newEmitter := felt.NewFromUint64[felt.Felt](0x4e3)
	testDB := memory.New()

	// (1) the old fork 0..6 in the database, the running filter over it, the snapshot written at
	// the clean shutdown.
	oldWindow := core.NewAggregatedFilter(0)
	for number := uint64(0); number <= 6; number++ {
		var receipts []*core.TransactionReceipt
		if number%2 == 1 {
			receipts = f17Receipts(number, oldEmitter)
		}
		f17WriteBlock(t, testDB, number, receipts)
		require.NoError(t, oldWindow.Insert(core.EventsBloom(receipts), number))
	}
	require.NoError(t, core.WriteChainHeight(testDB, 6))
	running := core.NewRunningEventFilterHot(testDB, &oldWindow, 7)
	require.NoError(t, running.Write())

	// (2) the node runs again with that filter: blocks 6..3 are reverted (the filter is told, as
	// RevertHead does), then 3'..9' are stored (the filter is told, as Store does).
	for number := uint64(6); number >= 3; number-- {
		require.NoError(t, running.OnReorg())
	}
	for number := uint64(3); number <= 9; number++ {
		receipts := f17Receipts(0x30+number, newEmitter)
		f17WriteBlock(t, testDB, number, receipts)
		require.NoError(t, running.Insert(core.EventsBloom(receipts), number))
	}
	require.NoError(t, core.WriteChainHeight(testDB, 9))

	// (3) the node is killed: `running` is lost, nothing is written. It starts again.
	chain := blockchain.New(testDB, &networks.Sepolia)
	filter, err := chain.EventFilter([]felt.Address{felt.Address(*newEmitter)}, nil, nil)
	require.NoError(t, err)
	require.NoError(t, filter.SetRangeEndBlockByNumber(blockchain.EventFilterFrom, 0))
	require.NoError(t, filter.SetRangeEndBlockByNumber(blockchain.EventFilterTo, 9))
	events, cToken, err := filter.Events(nil, 100)
	require.NoError(t, err)
	require.True(t, cToken.IsEmpty())
	blocks := []uint64{}
	for _, event := range events {
		blocks = append(blocks, event.BlockNumber)
	}
	require.NoError(t, filter.Close())
	require.Equal(t, []uint64{3, 4, 5, 6, 7, 8, 9}, blocks,
		"every event of the canonical chain must be found after the restart")
}
