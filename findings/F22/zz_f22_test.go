package core_test

// F22 (C02): the v3 transaction-hash pre-image takes only the low 128 bits of a resource bound's
// MaxPricePerUnit ("technically a uint128", but stored and transported as a full felt, with no range
// check anywhere): adding k * 2^128 to max_price_per_unit of any bound leaves the transaction hash
// unchanged, so a block carrying the altered transaction passes VerifyTransactions / the block-hash
// check and is stored with the altered value - a committed field that does not take part in the hash.
// Fails before the fix (the altered transaction hashes like the genuine one), passes after it (a
// bound that does not fit 128 bits has no hash: the transaction is refused).

import (
	"math/big"
	"testing"

	"github.com/NethermindEth/juno/blockchain/networks"
	"github.com/NethermindEth/juno/core"
	"github.com/NethermindEth/juno/core/felt"
	"github.com/stretchr/testify/require"
)

func f22Invoke(l1Price *felt.Felt) *core.InvokeTransaction {
	one := felt.NewFromUint64[felt.Felt](1)
	return &core.InvokeTransaction{
		Version:       new(core.TransactionVersion).SetUint64(3),
		SenderAddress: felt.NewFromUint64[felt.Felt](0xabc),
		Nonce:         one,
		CallData:      []felt.Felt{*one},
		ResourceBounds: map[core.Resource]core.ResourceBounds{
			core.ResourceL1Gas:     {MaxAmount: 100, MaxPricePerUnit: l1Price},
			core.ResourceL2Gas:     {MaxAmount: 200, MaxPricePerUnit: felt.NewFromUint64[felt.Felt](7)},
			core.ResourceL1DataGas: {MaxAmount: 300, MaxPricePerUnit: felt.NewFromUint64[felt.Felt](9)},
		},
	}
}

func TestVerifF22PriceBoundHighBitsAreCommitted(t *testing.T) {
	genuinePrice := felt.NewFromUint64[felt.Felt](1_000_000)
	genuine := f22Invoke(genuinePrice)
	genuineHash, err := core.TransactionHash(genuine, &networks.Sepolia)
	require.NoError(t, err)

	shifted := new(big.Int).Lsh(big.NewInt(1), 128) // 2^128
	shifted.Add(shifted, big.NewInt(1_000_000))
	alteredPrice := new(felt.Felt).SetBigInt(shifted)
	require.False(t, alteredPrice.Equal(genuinePrice))

	altered := f22Invoke(alteredPrice)
	alteredHash, err := core.TransactionHash(altered, &networks.Sepolia)
	if err == nil {
		require.NotEqual(t, genuineHash, alteredHash,
			"max_price_per_unit + 2^128 hashes like the genuine transaction: the altered transaction verifies")
	}

	// and through the block-level check: a block carrying the altered transaction under the genuine hash
	altered.TransactionHash = &genuineHash
	require.Error(t, core.VerifyTransactions([]core.Transaction{altered}, &networks.Sepolia, "0.14.0"),
		"a transaction whose price bound was altered above 2^128 passes VerifyTransactions")
}
