package core

import (
	"errors"
	"strings"
	"testing"

	"github.com/NethermindEth/juno/db"
	"github.com/NethermindEth/juno/db/memory"
	"github.com/bits-and-blooms/bloom/v3"
)

// F5a: the running event filter is advanced in memory inside the store transaction, before the
// batch commits. If the commit of the block that closes a bloom window fails, the persisted window
// is lost with the batch but the in-memory filter has already rolled over to the next window, so
// the retry of the same block is refused until the process restarts ("in-memory caches never
// disagree with what is on disk after a failed write", C05). Everything below is the real code;
// the failing commit is the memory back-end's Write returning the transaction's error after the
// body ran, which is exactly what a failing batch.Write() does.
func TestF5aFilterAheadOfDiskAfterFailedCommit(t *testing.T) {
	d := memory.New()
	first := NewAggregatedFilter(0)
	rf := NewRunningEventFilterHot(d, &first, 0)
	empty := func() *bloom.BloomFilter { return bloom.New(EventsBloomLength, EventsBloomHashFuncs) }
	for n := uint64(0); n < NumBlocksPerFilter-1; n++ {
		if err := d.Write(func(b db.Batch) error { return rf.InsertWithBatch(b, empty(), n) }); err != nil {
			t.Fatal(err)
		}
	}
	last := NumBlocksPerFilter - 1
	commitFailed := errors.New("commit failed")
	// the block that closes window [0,8191]: the body succeeds, the commit does not
	err := d.Write(func(b db.Batch) error {
		if err := rf.InsertWithBatch(b, empty(), last); err != nil {
			t.Fatal(err)
		}
		return commitFailed // nothing of this batch reaches the store
	})
	if !errors.Is(err, commitFailed) {
		t.Fatalf("want the commit failure, got %v", err)
	}
	if _, err := GetAggregatedBloomFilter(d, 0, last); err == nil {
		t.Fatal("the window must not be on disk: its batch was dropped")
	}
	// the node is still at height 8190 and stores block 8191 again
	err = d.Write(func(b db.Batch) error { return rf.InsertWithBatch(b, empty(), last) })
	if err != nil {
		if strings.Contains(err.Error(), "not within range") {
			t.Fatalf("F5a: after the failed commit the in-memory filter is one window ahead of the disk; the retry of block %d fails: %v", last, err)
		}
		t.Fatal(err)
	}
}
