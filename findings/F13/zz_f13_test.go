package migration_test

import (
	"testing"

	"github.com/NethermindEth/juno/blockchain/networks"
	"github.com/NethermindEth/juno/db/memory"
	"github.com/NethermindEth/juno/migration"
	"github.com/NethermindEth/juno/utils/log"
	"github.com/stretchr/testify/require"
)

func TestF13OlderBinaryOpensDBWithStartedNewerMigration(t *testing.T) {
	database := memory.New()
	require.NoError(t, migration.WriteSchemaMetadata(database, migration.SchemaMetadata{
		CurrentVersion:    0b0111,
		LastTargetVersion: 0b1111, // migration 3 (mandatory in a newer binary) started, not finished
	}))
	require.NoError(t, migration.WriteIntermediateState(database, 3, []byte("half")))
	registry := migration.NewRegistry().With(&mockMigration{}).With(&mockMigration{}).With(&mockMigration{})
	_, err := migration.NewRunner(registry, database, &networks.Mainnet, log.NewNopZapLogger())
	require.Error(t, err, "older binary lacking started migration 3 should be refused")
}
