package core

import (
	"testing"

	"github.com/NethermindEth/juno/core/felt"
	"github.com/NethermindEth/juno/db/memory"
)

// F14: the CBOR decoder raises the array-length limit but leaves the map limit at the library
// default (131072 pairs). A state update whose diff has more entries than that in one map is
// written by WriteStateUpdateByBlockNum and can never be read back ("everything stored is
// returned unchanged", C07).
func TestF14LargeStateDiffMapReadsBack(t *testing.T) {
	const n = 131073
	diff := EmptyStateDiff()
	one := new(felt.Felt).SetUint64(1)
	for i := uint64(0); i < n; i++ {
		diff.Nonces[*new(felt.Felt).SetUint64(i + 1)] = one
	}
	su := &StateUpdate{BlockHash: one, NewRoot: one, OldRoot: one, StateDiff: &diff}
	d := memory.New()
	if err := WriteStateUpdateByBlockNum(d, 7, su); err != nil {
		t.Fatal(err)
	}
	got, err := GetStateUpdateByBlockNum(d, 7)
	if err != nil {
		t.Fatalf("F14: a stored state update with %d nonces cannot be read back: %v", n, err)
	}
	if len(got.StateDiff.Nonces) != n {
		t.Fatalf("got %d nonces, want %d", len(got.StateDiff.Nonces), n)
	}
}
