package propeller

import (
	"bytes"
	"crypto/ed25519"
	"testing"

	"github.com/libp2p/go-libp2p/core/crypto"
	"github.com/libp2p/go-libp2p/core/peer"
)

// F15: every unit produced by CreatePropellerUnits - the publisher's own, honest output - is
// rejected by the receiver's UnitValidator: the publisher's Merkle tree is built over the raw
// shards, the validator verifies the proof against the proto encoding of the unit's shard data.
func TestF15HonestUnitsAreRejected(t *testing.T) {
	const n = 4
	var peers []PeerCommittee
	privs := map[peer.ID]crypto.PrivKey{}
	for i := 0; i < n; i++ {
		seed := make([]byte, ed25519.SeedSize)
		seed[0] = byte(i + 1)
		priv, _, err := crypto.GenerateEd25519Key(bytes.NewReader(seed))
		if err != nil {
			t.Fatal(err)
		}
		id, err := peer.IDFromPrivateKey(priv)
		if err != nil {
			t.Fatal(err)
		}
		privs[id] = priv
		peers = append(peers, PeerCommittee{ID: id, Stake: 1})
	}
	// the receiver's view of the committee (NewScheduler sorts the list)
	local := peers[0].ID
	sched, err := NewScheduler(local, append([]PeerCommittee{}, peers...))
	if err != nil {
		t.Fatal(err)
	}
	var publisher peer.ID
	for _, p := range sched.Peers() {
		if p.ID != local {
			publisher = p.ID
			break
		}
	}
	var committee CommitteeID
	units, err := CreatePropellerUnits(privs[publisher], &committee, Nonce(1), []byte("hello propeller"),
		sched.NumDataShards(), sched.NumCodingShards())
	if err != nil {
		t.Fatal(err)
	}
	rejected := 0
	for i := range units {
		v := NewValidator(publisher, sched)
		sender, err := sched.PeerForShardIndex(publisher, units[i].ShardIndex)
		if err != nil {
			t.Fatal(err)
		}
		if sender == local {
			sender = publisher // the direct shard
		}
		if err := v.Validate(&units[i], sender); err != nil {
			t.Logf("honest unit %d rejected: %v", i, err)
			rejected++
		}
	}
	if rejected != 0 {
		t.Fatalf("%d of %d honest units were rejected by the validator", rejected, len(units))
	}
}
