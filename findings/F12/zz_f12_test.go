package blocktransactions_test

import (
	"testing"

	"github.com/NethermindEth/juno/adapters/testutils"
	"github.com/NethermindEth/juno/blockchain/networks"
	"github.com/NethermindEth/juno/core"
	"github.com/NethermindEth/juno/db/memory"
	"github.com/NethermindEth/juno/migration/blocktransactions"
	"github.com/NethermindEth/juno/migration/blocktransactions/txlayout"
	"github.com/NethermindEth/juno/utils/log"
	"github.com/stretchr/testify/require"
)

func TestF12AlreadyMigratedBlocksAreOverwritten(t *testing.T) {
	database := memory.New()
	const height = uint64(19)
	txs := make([][]core.Transaction, height+1)
	rcs := make([][]*core.TransactionReceipt, height+1)
	for b := uint64(0); b <= height; b++ {
		txs[b] = testutils.GetCoreTransactions(t, 2)
		rcs[b] = testutils.GetCoreReceipts(t, 2)
		h := core.Header{Number: b, TransactionCount: 2}
		require.NoError(t, core.BlockHeadersByNumberBucket.Put(database, b, &h))
		layout := txlayout.TransactionLayoutPerTx
		if b >= 10 {
			layout = txlayout.TransactionLayoutCombined
		}
		require.NoError(t, layout.WriteTransactionsAndReceipts(database, b, txs[b], rcs[b]))
	}
	require.NoError(t, core.WriteChainHeight(database, height))
	state, err := blocktransactions.Migrator{}.Migrate(t.Context(), database, &networks.Sepolia, log.NewNopZapLogger())
	require.NoError(t, err)
	require.Nil(t, state)
	for b := uint64(0); b <= height; b++ {
		got, err := txlayout.TransactionLayoutCombined.TransactionsByBlockNumber(database, b)
		require.NoError(t, err)
		require.Len(t, got, 2, "block %d", b)
	}
}
