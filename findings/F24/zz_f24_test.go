package rpcv10

// F24 (C10): starknet_getStorageProof answers contracts_storage_proofs with one entry per requested
// contract; a client verifies entry i against the storage root of the i-th contract it asked for.
// processStorageKeys de-duplicated the request through a Go map and then ITERATED the map: the
// entries came back in a random order (30 identical four-contract requests: several different
// orders), so a positional verifier checks a proof against the wrong contract's root and rejects
// a perfectly good answer - or, for contracts with equal storage, accepts the wrong one.
// Fails before the fix (with overwhelming probability), passes after it.

import (
	"testing"

	"github.com/NethermindEth/juno/core/felt"
	"github.com/stretchr/testify/require"
)

func TestVerifF24StorageProofsFollowTheRequestOrder(t *testing.T) {
	request := make([]StorageKeys, 0, 8)
	for i := range uint64(8) {
		request = append(request, StorageKeys{
			Contract: felt.NewFromUint64[felt.Felt](0x1000 + i*7919),
			Keys:     []felt.Felt{felt.FromUint64[felt.Felt](i + 1)},
		})
	}
	// the third contract is asked for twice: its keys are merged into its FIRST position
	request = append(request, StorageKeys{
		Contract: request[2].Contract,
		Keys:     []felt.Felt{felt.FromUint64[felt.Felt](99)},
	})

	for attempt := range 30 {
		got, rpcErr := processStorageKeys(request)
		require.Nil(t, rpcErr)
		require.Len(t, got, 8)
		for i := range got {
			require.True(t, got[i].Contract.Equal(request[i].Contract),
				"attempt %d: entry %d answers contract %s, the request's contract %d is %s",
				attempt, i, got[i].Contract, i, request[i].Contract)
		}
		require.Len(t, got[2].Keys, 2, "the repeated contract's keys are merged")
	}
}
