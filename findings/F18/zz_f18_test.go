package jsonrpc_test

// Demonstration of defect F18 (property C11): a VALID batch preceded by 128 or more bytes of
// insignificant whitespace is answered with -32700 "Parse error" instead of an array of responses.
// isBatch peeks n bytes with a growing n; bufio.Reader.Peek fails with ErrBufferFull once n exceeds
// the 128-byte buffer, and the failure is read as "not a batch".
// Run:  cp this file into /repo/jsonrpc and `go test -run TestF18 ./jsonrpc/`.

import (
	"context"
	"strings"
	"testing"

	"github.com/NethermindEth/juno/jsonrpc"
	"github.com/NethermindEth/juno/utils/log"
)

func TestF18BatchAfterLongWhitespace(t *testing.T) {
	srv := jsonrpc.NewServer(1, log.NewNopZapLogger())
	if err := srv.RegisterMethods(jsonrpc.Method{
		Name:    "ping",
		Handler: func() (string, *jsonrpc.Error) { return "pong", nil },
	}); err != nil {
		t.Fatal(err)
	}
	batch := `[{"jsonrpc":"2.0","method":"ping","id":1}]`
	for _, pad := range []int{0, 127, 128, 500} {
		out, _, err := srv.HandleReader(context.Background(), strings.NewReader(strings.Repeat(" ", pad)+batch))
		if err != nil {
			t.Fatalf("pad %d: %v", pad, err)
		}
		want := `[{"jsonrpc":"2.0","result":"pong","id":1}]`
		if string(out) != want {
			t.Errorf("pad %d: got %s, want %s", pad, out, want)
		}
	}
}
