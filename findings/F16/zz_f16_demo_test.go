package propeller

import (
	"bytes"
	"crypto/ed25519"
	"testing"

	"github.com/libp2p/go-libp2p/core/crypto"
	"github.com/libp2p/go-libp2p/core/peer"
)

// F16: CreatePropellerUnits signs (root, committee, nonce) but did not put the nonce into the
// units: a receiver verified the signature against nonce 0 and rejected every unit of a message
// published with a non-zero nonce.
func TestF16UnitsCarryTheSignedNonce(t *testing.T) {
	seed := make([]byte, ed25519.SeedSize)
	seed[0] = 7
	priv, _, err := crypto.GenerateEd25519Key(bytes.NewReader(seed))
	if err != nil {
		t.Fatal(err)
	}
	publisher, err := peer.IDFromPrivateKey(priv)
	if err != nil {
		t.Fatal(err)
	}
	pub, err := publisher.ExtractPublicKey()
	if err != nil {
		t.Fatal(err)
	}
	var committee CommitteeID
	const nonce = Nonce(12345)
	units, err := CreatePropellerUnits(priv, &committee, nonce, []byte("hello"), 1, 2)
	if err != nil {
		t.Fatal(err)
	}
	for i := range units {
		if units[i].Nonce != nonce {
			t.Errorf("unit %d carries nonce %d, the message was signed with %d", i, units[i].Nonce, nonce)
		}
		if err := VerifyMessageSignature(pub, &units[i].MessageRoot, &units[i].CommitteeID, units[i].Nonce, units[i].Signature); err != nil {
			t.Errorf("unit %d: signature does not verify against the unit's own fields: %v", i, err)
		}
	}
}
