package pebblev2_test

import (
	"testing"

	"github.com/NethermindEth/juno/db"
	"github.com/NethermindEth/juno/db/memory"
	"github.com/NethermindEth/juno/db/pebblev2"
	"github.com/stretchr/testify/require"
)

// F9 (C15): with withUpperBound=true and a prefix whose upper bound does not exist (empty prefix,
// or all bytes 0xff) Pebble iterates without an upper bound, while the in-memory backend compared
// every key against the empty string and returned nothing.
func keysUnder(t *testing.T, s db.KeyValueStore, prefix []byte) [][]byte {
	t.Helper()
	it, err := s.NewIterator(prefix, true)
	require.NoError(t, err)
	defer it.Close()
	var out [][]byte
	for ok := it.First(); ok; ok = it.Next() {
		out = append(out, append([]byte(nil), it.Key()...))
	}
	return out
}

func TestVerifF9UpperBoundNil(t *testing.T) {
	mem := memory.New()
	defer mem.Close()
	peb, err := pebblev2.New(t.TempDir())
	require.NoError(t, err)
	defer peb.Close()
	for _, s := range []db.KeyValueStore{mem, peb} {
		require.NoError(t, s.Put([]byte{0x01, 0x02}, []byte("a")))
		require.NoError(t, s.Put([]byte{0xff, 0x01}, []byte("b")))
		require.NoError(t, s.Put([]byte{0xff, 0xff, 0x07}, []byte("c")))
	}
	for _, prefix := range [][]byte{{0xff}, {0xff, 0xff}, nil, {}} {
		require.Equal(t, keysUnder(t, peb, prefix), keysUnder(t, mem, prefix), "prefix %x", prefix)
	}
}
