package blockchain_test

// F20 (C03, C01): trie2's delete reported a removed value node to the node tracer under the
// remaining key - empty at a value node, i.e. the ROOT's path - instead of under the node's own
// path. A storage leaf hanging directly under a binary node (two set slots that differ only in the
// last bit) was therefore never deleted from the node database when its slot was cleared. Roots
// stayed right (the parent was rewritten), but the head reader of the new state back-end fetches
// storage leaves directly by path and kept returning the old value for the cleared slot.
// Fails before the fix (657848d), passes after it.

import (
	"testing"

	"github.com/NethermindEth/juno/blockchain"
	"github.com/NethermindEth/juno/blockchain/networks"
	"github.com/NethermindEth/juno/core"
	"github.com/NethermindEth/juno/core/felt"
	"github.com/NethermindEth/juno/db/memory"
	"github.com/stretchr/testify/require"
)

func f20Finalise(t *testing.T, chain *blockchain.Blockchain, number uint64, parent *core.Block, diff *core.StateDiff) *core.Block {
	t.Helper()
	parentHash, oldRoot := &felt.Zero, &felt.Zero
	if parent != nil {
		parentHash, oldRoot = parent.Hash, parent.GlobalStateRoot
	}
	receipts := make([]*core.TransactionReceipt, 0)
	block := &core.Block{
		Header: &core.Header{
			ParentHash:       parentHash,
			Number:           number,
			SequencerAddress: &felt.Zero,
			EventsBloom:      core.EventsBloom(receipts),
			L1GasPriceETH:    &felt.Zero,
			L1GasPriceSTRK:   &felt.Zero,
			L1DataGasPrice:   &core.GasPrice{PriceInFri: &felt.Zero, PriceInWei: &felt.Zero},
			L2GasPrice:       &core.GasPrice{PriceInFri: &felt.Zero, PriceInWei: &felt.Zero},
			L1DAMode:         core.Calldata,
			ProtocolVersion:  core.Ver0_14_0.String(),
		},
		Transactions: make([]core.Transaction, 0),
		Receipts:     receipts,
	}
	require.NoError(t, chain.Finalise(block, &core.StateUpdate{OldRoot: oldRoot, StateDiff: diff}, nil, nil))
	return block
}

func TestVerifF20ClearedSiblingSlotReadsZeroAtHead(t *testing.T) {
	chain := blockchain.New(memory.New(), &networks.Sepolia, blockchain.WithNewState(true))
	addr := felt.NewFromUint64[felt.Felt](0xabc)
	classHash := felt.NewFromUint64[felt.Felt](0xc1a55)
	slot6 := felt.NewFromUint64[felt.Felt](6) // ...110
	slot7 := felt.NewFromUint64[felt.Felt](7) // ...111: sibling leaf of slot 6 under one binary node
	v5 := felt.NewFromUint64[felt.Felt](5)
	v9 := felt.NewFromUint64[felt.Felt](9)

	b0 := f20Finalise(t, chain, 0, nil, &core.StateDiff{DeployedContracts: map[felt.Felt]*felt.Felt{*addr: classHash}})
	b1 := f20Finalise(t, chain, 1, b0, &core.StateDiff{
		StorageDiffs: map[felt.Felt]map[felt.Felt]*felt.Felt{*addr: {*slot6: v5, *slot7: v9}},
	})
	f20Finalise(t, chain, 2, b1, &core.StateDiff{
		StorageDiffs: map[felt.Felt]map[felt.Felt]*felt.Felt{*addr: {*slot7: &felt.Zero}},
	})

	head, closer, err := chain.HeadState()
	require.NoError(t, err)
	defer func() { require.NoError(t, closer()) }()
	got, err := head.ContractStorage(addr, slot7)
	require.NoError(t, err)
	require.Equal(t, felt.Zero, got, "slot 7 was cleared by block 2 and must read zero at the head")
	got, err = head.ContractStorage(addr, slot6)
	require.NoError(t, err)
	require.Equal(t, *v5, got, "the sibling slot keeps its value")
}
