package core_test

// Demonstration of defect F19 (C05, C04, C09). Place in core/ (package core_test; uses testBloomWithRandomKeys of running_event_filter_test.go).
// Fails before the fix, passes after it. First written by a seeding sub-agent as a side observation.

import (
	"testing"

	"github.com/NethermindEth/juno/core"
	"github.com/NethermindEth/juno/core/felt"
	"github.com/NethermindEth/juno/db"
	"github.com/NethermindEth/juno/db/memory"
	"github.com/stretchr/testify/require"
)

// Revert the last block of a bloom window (number 8191), crash (no snapshot), restart:
// the rebuilt running filter sits in window [8192, 16383] with next=8192 although the head is 8190,
// and the re-insertion of block 8191 (what Store does) is refused as "out of range".
func TestF19BoundaryRevertThenRestart(t *testing.T) {
	testDB := memory.New()
	boundary := core.NumBlocksPerFilter - 1
	filter := core.NewAggregatedFilter(0)
	rf := core.NewRunningEventFilterHot(testDB, &filter, 0)
	for i := uint64(0); i <= boundary; i++ {
		h := &core.Header{
			Number:      i,
			Hash:        felt.NewFromUint64[felt.Felt](i + 1),
			EventsBloom: testBloomWithRandomKeys(t, 1),
		}
		require.NoError(t, core.WriteBlockHeaderByNumber(testDB, h))
		require.NoError(t, rf.Insert(h.EventsBloom, i))
	}
	require.NoError(t, core.WriteChainHeight(testDB, boundary))

	// what statebackend.RevertHead does for block `boundary`
	require.NoError(t, testDB.Write(func(batch db.Batch) error {
		if err := core.DeleteBlockHeaderByNumber(batch, boundary); err != nil {
			return err
		}
		if err := core.WriteChainHeight(batch, boundary-1); err != nil {
			return err
		}
		return rf.OnReorgWithBatch(batch)
	}))
	n, err := rf.NextBlock()
	require.NoError(t, err)
	require.Equal(t, boundary, n)

	// restart without a snapshot (crash; the revert deleted the snapshot anyway)
	rf2 := core.NewRunningEventFilterLazy(testDB, core.InitializeRunningEventFilter)
	n2, err := rf2.NextBlock()
	require.NoError(t, err)
	from2, err := rf2.FromBlock()
	require.NoError(t, err)
	t.Logf("after restart next=%d from=%d (head is %d)", n2, from2, boundary-1)
	require.Equal(t, boundary, n2)
	require.NoError(t, rf2.Insert(testBloomWithRandomKeys(t, 1), boundary))
}
