package historyprunner_test

// F23 (C16): when min(L1 head, chain height) == retainedBlocks exactly, the history-pruning migration
// does not take the "chain shorter than the retention window" exit (the test is pivot < retained),
// computes the retention floor 0 - nothing to prune - and goes on: it wipes the reverse-lookup buckets
// of the WHOLE chain (tx hash -> (block, index), L1 message hash -> tx hash, block hash -> number), all
// of whose blocks are retained, and then fails at "block header at 18446744073709551615" (floor - 1
// wraps). Every retry fails the same way. Fails before the fix, passes after it.

import (
	"testing"

	"github.com/NethermindEth/juno/blockchain/networks"
	"github.com/NethermindEth/juno/migration/historyprunner"
	"github.com/NethermindEth/juno/pruner/testutils"
	"github.com/NethermindEth/juno/utils/log"
	"github.com/stretchr/testify/require"
)

func TestVerifF23RetentionEqualToTheChainLeavesEverythingIntact(t *testing.T) {
	const totalBlocks uint64 = 30
	const retainedBlocks = totalBlocks - 1 // == tip == min(L1 head, chain height)

	database, blocks := setupChain(t, totalBlocks)

	m := historyprunner.New(retainedBlocks, 0)
	state, err := m.Migrate(t.Context(), database, &networks.Mainnet, log.NewNopZapLogger())
	require.NoError(t, err, "every block is inside the retention window: there is nothing to prune")
	require.Nil(t, state)

	for _, b := range blocks {
		testutils.AssertBlockExists(t, database, b)
	}
}
