package propeller

import (
	"bytes"
	"crypto/rand"
	"testing"

	"github.com/libp2p/go-libp2p/core/crypto"
)

// F2: a message must be reconstructed from any sufficient subset of shards; when shard 0 is
// among the missing ones ConstructMessageFromUnits dereferenced units[0] (nil).
func TestF2ReconstructWithoutShardZero(t *testing.T) {
	priv, _, err := crypto.GenerateEd25519Key(rand.Reader)
	if err != nil {
		t.Fatal(err)
	}
	var committee CommitteeID
	message := []byte("a message that is split into four data shards and two parity shards")
	const data, parity = 4, 2
	units, err := CreatePropellerUnits(priv, &committee, 1, message, data, parity)
	if err != nil {
		t.Fatal(err)
	}
	received := make([]*Unit, len(units))
	for i := range units {
		if i == 0 {
			continue // shard 0 never arrived
		}
		received[i] = &units[i]
	}
	defer func() {
		if r := recover(); r != nil {
			t.Fatalf("ConstructMessageFromUnits panicked with shard 0 missing: %v", r)
		}
	}()
	got, _, _, err := ConstructMessageFromUnits(received, 1, data, parity)
	if err != nil {
		t.Fatalf("reconstruction failed: %v", err)
	}
	if !bytes.Equal(got, message) {
		t.Fatalf("reconstructed %q, want %q", got, message)
	}
}
