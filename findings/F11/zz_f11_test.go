package trie2

import (
	"testing"

	"github.com/NethermindEth/juno/core/crypto"
	"github.com/NethermindEth/juno/core/felt"
	"github.com/NethermindEth/juno/core/trie2/trienode"
)

// F11: trie2.VerifyProof returns the content of a ValueNode child as the key's value without
// checking that all key bits have been consumed ("the proof ends before processing all key bits"
// is one of the cases its own documentation lists as invalid). An inner node's hash does not
// depend on whether a child is presented as HashNode(h) or ValueNode(h), so a proof truncated
// after any node - with that node's child hash relabelled as a value - verifies against the
// unchanged root and yields an inner-node hash as the value of the key.
func TestF11TruncatedProofWithRelabelledChildVerifies(t *testing.T) {
	tr, err := NewEmptyPedersen()
	if err != nil {
		t.Fatal(err)
	}
	keys := []uint64{0, 1, 1 << 20, 1<<20 + 5, 1 << 40}
	for i, k := range keys {
		if err := tr.Update(new(felt.Felt).SetUint64(k), new(felt.Felt).SetUint64(uint64(100+i))); err != nil {
			t.Fatal(err)
		}
	}
	root, _ := tr.Hash()
	key := new(felt.Felt).SetUint64(1)
	proof := NewProofNodeSet()
	if err := tr.Prove(key, proof); err != nil {
		t.Fatal(err)
	}
	want, err := VerifyProof(&root, key, proof, crypto.Pedersen)
	if err != nil {
		t.Fatal(err)
	}

	// keep only the root node of the proof and relabel its child hashes as values
	rootNode, ok := proof.Get(root)
	if !ok {
		t.Fatal("no root node in the proof")
	}
	relabel := func(n trienode.Node) trienode.Node {
		if h, ok := n.(*trienode.HashNode); ok {
			v := trienode.ValueNode(*h)
			return &v
		}
		return n
	}
	switch n := rootNode.(type) {
	case *trienode.EdgeNode:
		n.Child = relabel(n.Child)
	case *trienode.BinaryNode:
		n.Children[0], n.Children[1] = relabel(n.Children[0]), relabel(n.Children[1])
	}
	truncated := NewProofNodeSet()
	truncated.Put(root, rootNode)

	got, err := VerifyProof(&root, key, truncated, crypto.Pedersen)
	if err == nil && !got.Equal(&want) && !got.IsZero() {
		t.Fatalf("F11: a proof truncated after its first node verifies against the unchanged root and yields %s as the value of the key (the trie holds %s)", got.String(), want.String())
	}
}
