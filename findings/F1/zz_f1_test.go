package propeller

import (
	"encoding/binary"
	"testing"
)

// F1 (C19): a varint length >= 2^64-10 made varintLen+msgLen wrap, pass the bound check and
// panic in the slice expression. A unit may never make the receiver fail.
func TestVerifF1UnpadHugeVarint(t *testing.T) {
	buf := make([]byte, 16)
	n := binary.PutUvarint(buf, ^uint64(0)) // 10 bytes
	defer func() {
		if r := recover(); r != nil {
			t.Fatalf("UnpadMessage panicked on a %d-byte varint prefix: %v", n, r)
		}
	}()
	if _, err := UnpadMessage(buf); err == nil {
		t.Fatalf("UnpadMessage accepted a length of 2^64-1 for a 16-byte buffer")
	}
}
