#!/bin/sh
# warms the go1.26.8 build cache (export data) for the packages the checks load; offline
export GOFLAGS=-mod=mod GOPROXY=off GOSUMDB=off GOTOOLCHAIN=local PATH=/opt/veriftools/go1.26.8/bin:$PATH
cd /repo || exit 0
pk=$(find . -name zz_contracts_verif.go -not -path './.git/*' | xargs -n1 dirname | sort -u)
[ -n "$pk" ] && go build -tags=verif $pk 2>&1 | tail -5
exit 0
