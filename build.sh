#!/bin/sh
# builds the verifier; offline
set -e
export GOFLAGS=-mod=mod GOPROXY=off GOSUMDB=off GOTOOLCHAIN=local PATH=/opt/veriftools/go1.26.8/bin:$PATH
cd "$(dirname "$0")/gocv"
mkdir -p ../bin
go build -o ../bin/gocv .
