#!/bin/sh
cd "$(dirname "$0")"
[ -x bin/gocv ] || ./build.sh || exit 2
exec python3 selftest/run.py "$@"
