#!/bin/sh
cd "$(dirname "$0")"
[ -x bin/gocv ] || ./build.sh || exit 2
if [ $# -eq 0 ]; then
  tools/detcheck.sh C14 ./consensus/walstore || exit 1
  tools/detcheck.sh C04 ./core/state ./core/deprecatedstate ./core ./blockchain/statebackend ./blockchain || exit 1
  tools/detcheck.sh C12 ./consensus/tendermint ./consensus/votecounter || exit 1
fi
exec python3 selftest/run.py "$@"
