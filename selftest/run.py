#!/usr/bin/env python3
"""Must-fail / must-pass corpus for the verifier (./check --selftest).

Each case in cases.json is a small source edit (exact string replacement) of one file of /repo.
The edit is applied to a scratch copy of that file outside /repo and /verif and handed to the
checker as an overlay (the repository is never written); the checker runs exactly as for a
registered check, but with a scratch evidence/replay directory. 'expect' is VIOLATION (with a
regexp the refuted obligation must match), NONE (a benign edit: no VIOLATION line allowed) or
UNDECIDED (a documented miss: the change breaks the property but the solvers neither prove nor
refute the affected obligation in time - it must be reported UNDECIDED, never silently accepted).
"""
import json, os, re, subprocess, sys, tempfile, shutil, concurrent.futures
root = os.path.dirname(os.path.dirname(os.path.abspath(__file__)))
cases = json.load(open(os.path.join(root, 'selftest', 'cases.json')))
only = sys.argv[1:] 
def run(case):
    tmp = tempfile.mkdtemp(prefix='gocv-selftest-')
    try:
        real = os.path.join('/repo', case['file'])
        src = open(real).read()
        if case['old'] not in src:
            return case, 'STALE', 'pattern not found in ' + case['file']
        mut = src.replace(case['old'], case['new'], 1)
        mf = os.path.join(tmp, os.path.basename(real))
        open(mf, 'w').write(mut)
        vdir = os.path.join(tmp, 'verif')
        os.makedirs(vdir)
        shutil.copytree(os.path.join(root, 'expected'), os.path.join(vdir, 'expected'))
        shutil.copy(os.path.join(root, 'known-findings.txt'), vdir)
        p = subprocess.run([os.path.join(root, 'bin', 'gocv'), 'check', '-prop', case['prop'], '-verif', vdir,
                            '-overlay-file', real + '=' + mf], capture_output=True, text=True, timeout=900)
        out = p.stdout + p.stderr
        viol = [l for l in out.splitlines() if l.startswith('VIOLATION')]
        refuted = [l for l in out.splitlines() if l.strip().startswith('refuted:')]
        if case['expect'] == 'NONE':
            ok = not viol and p.returncode == 0
            return case, 'ok' if ok else 'FAIL', '' if ok else out[-1500:]
        if case['expect'] == 'UNDECIDED':
            # a documented miss: no alarm, and the affected obligation is reported as undecided
            und = [l for l in out.splitlines() if l.startswith('UNDECIDED') and re.search(case.get('obligation', '.'), l)]
            ok = not viol and p.returncode == 0 and bool(und)
            return case, 'ok' if ok else 'FAIL', '' if ok else out[-1500:]
        ok = bool(viol) and p.returncode == 1 and any(re.search(case.get('obligation', '.'), l) for l in refuted)
        return case, 'ok' if ok else 'FAIL', '' if ok else out[-1500:]
    finally:
        shutil.rmtree(tmp, ignore_errors=True)
sel = [c for c in cases if not only or c['name'] in only or c['prop'] in only]
bad = 0
with concurrent.futures.ThreadPoolExecutor(max_workers=4) as ex:
    for case, status, detail in ex.map(run, sel):
        print(f"{status:5} {case['prop']} {case['name']} (expect {case['expect']})")
        if status != 'ok':
            bad += 1
            print(detail)
print(f"selftest: {len(sel)-bad}/{len(sel)} cases behave as expected")
sys.exit(1 if bad else 0)
