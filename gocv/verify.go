package main

import (
	"os"
	"runtime/debug"
	"fmt"
	"go/types"

	"golang.org/x/tools/go/ssa"
	"sort"
	"strings"
)

type FuncResult struct {
	Contract *FuncContract
	FullName string
	VC       *VC
	Err      string // why no VC could be generated (-> UNDECIDED)
	Obls     []*Obligation
}

func (ctx *Ctx) fullName(fc *FuncContract) string {
	return fc.PkgPath + "." + fc.Key
}

// GenVC generates the verification conditions for one contract.
func (ctx *Ctx) GenVC(fc *FuncContract) (res *FuncResult) {
	res = &FuncResult{Contract: fc, FullName: ctx.fullName(fc)}
	defer func() {
		if r := recover(); r != nil {
			res.Err = fmt.Sprintf("internal error: %v", r)
			if os.Getenv("GOCV_DEBUG") != "" {
				fmt.Fprintf(os.Stderr, "%s\n", debug.Stack())
			}
		}
	}()
	if len(fc.Errors) > 0 {
		res.Err = "contract does not parse: " + strings.Join(fc.Errors, "; ")
		return res
	}
	ctx.closures = map[string]*closureInfo{}
	useCoreTypes = fc.CoreTypes
	if fc.Kind == "lemma" {
		ctx.genLemma(fc, res)
		return res
	}
	fn := ctx.funcFor(fc)
	if fn == nil {
		res.Err = "contract target not found (renamed or removed?)"
		return res
	}
	if fn.Blocks == nil {
		res.Err = "contract target has no body"
		return res
	}
	vc := NewVC(ctx, fn, fc, res.FullName)
	vc.nosafe = fc.NoSafe
	vc.nosafeKinds = fc.NoSafeKinds
	res.VC = vc
	fr := vc.newFrame(fn, fc, "", 0, nil)
	vc.rootFr = fr
	entry := &State{reach: True, taint: False, base: "0", mbase: "0", heaps: map[Sort]Term{}, maps: map[string]Term{}, ghost: map[string]Term{}}
	entry.alloc = vc.Fresh("alloc0", SInt)
	entry.epochBound = entry.alloc
	vc.entryAlloc = entry.alloc
	entry.assume(Ge(entry.alloc, IntLit(1)))
	for _, p := range fn.Params {
		srt, err := vc.tt.SortOf(p.Type())
		if err != nil {
			res.Err = fmt.Sprintf("parameter %s: %v", p.Name(), err)
			return res
		}
		t := vc.Fresh("p_"+p.Name(), srt)
		fr.vals[p] = t
		vc.paramTerms = append(vc.paramTerms, t)
		entry.assume(vc.rangeAssumption(t, p.Type(), entry.alloc))
		switch U(p.Type()).(type) {
		case *types.Pointer:
			vc.notePreRid(t) // rangeAssumption: rid(t) < entry.alloc
		case *types.Slice:
			vc.notePreRid(SBase(t))
		}
		if _, isSl := U(p.Type()).(*types.Slice); isSl {
			sl := U(p.Type()).(*types.Slice)
			entry.assume(Implies(Neq(Rid(SBase(t)), IntLit(0)), Eq(App(SInt, "otype", Rid(SBase(t))), IntLit(-int64(vc.tt.TID(sl.Elem()))))))
			vc.assume("slice parameters are backed by array allocations of their own element type (not by part of a struct object, not shared with a slice of another element type)")
		}
		vc.inputs = append(vc.inputs, WatchTerm{p.Name(), t})
	}
	// A closure under contract: every captured variable is a distinct allocated cell of the
	// enclosing function, reached through the free variable (a pointer to it).
	var fvRids []Term
	for _, fv := range fn.FreeVars {
		t := vc.Fresh("fv_"+fv.Name(), SRef)
		fr.freeVars[fv] = t
		entry.assume(And(Gt(Rid(t), IntLit(0)), Lt(Rid(t), entry.alloc), Eq(Roff(t), IntLit(0))))
		for _, o := range fvRids {
			entry.assume(Neq(Rid(t), o))
		}
		fvRids = append(fvRids, Rid(t))
		if pt, ok := U(fv.Type()).(*types.Pointer); ok {
			vc.captured = append(vc.captured, capturedCell{t, pt.Elem(), fv})
			if v, err := vc.loadAt(entry, t, pt.Elem()); err == nil {
				entry.assume(vc.rangeAssumption(v, pt.Elem(), entry.alloc))
			}
		}
		vc.assume("captured variable " + fv.Name() + " of the closure is a cell of its own, written only by the closure while it runs (not by its callees)")
	}
	// pre-register the heap sorts of every type the function mentions
	for _, b := range fn.Blocks {
		for _, in := range b.Instrs {
			if v, ok := in.(ssa.Value); ok {
				t := v.Type()
				if p, ok := U(t).(*types.Pointer); ok {
					t = p.Elem()
				}
				if _, isTuple := t.(*types.Tuple); !isTuple {
					leaf := map[Sort]bool{}
					func() {
						defer func() { recover() }()
						vc.leafSorts(t, leaf)
					}()
					for _, s := range sortedKeys(leaf) {
						vc.heapReg[s] = true
					}
				}
			}
		}
	}
	fr.entry = entry.clone()
	vc.entryState = fr.entry
	env := fr.baseEnv(entry)
	env.old = entry
	for _, rq := range fc.Requires {
		t, err := env.EvalBool(rq.E)
		if err != nil {
			res.Err = fmt.Sprintf("requires %s does not resolve: %v", rq.Label, err)
			return res
		}
		entry.assume(t)
	}
	for _, g := range ctx.globalFacts[fc.PkgPath] {
		t, err := env.EvalBool(g.E)
		if err != nil {
			res.Err = fmt.Sprintf("global %s does not resolve: %v", g.Label, err)
			return res
		}
		entry.assume(t)
		vc.assume("package-level variables of " + fc.PkgPath + " hold their initial values: " + g.Src)
	}
	for _, w := range fc.Where {
		t, err := env.EvalBool(w.E)
		if err != nil {
			res.Err = fmt.Sprintf("where %s does not resolve: %v", w.Label, err)
			return res
		}
		entry.assume(t)
	}
	entry.reach = vc.Define("pre", entry.reach)
	if err := fr.encodeBody(entry); err != nil {
		res.Err = "outside the supported subset: " + err.Error()
		return res
	}
	exit, results := fr.mergeReturns()
	vc.entryState = fr.entry
	vc.exitState = exit
	vc.resultTerms = results
	penv := fr.baseEnv(exit)
	penv.old = fr.entry
	bindResults(penv, fn.Signature, results)
	for i, r := range results {
		vc.inputs = append(vc.inputs, WatchTerm{fmt.Sprintf("result%d", i), r})
	}
	// Exit obligations: on the merged exit state, or - for contracts with an appends clause or
	// the splitreturns flag - separately for every return site, which keeps the heap terms free
	// of the if-then-else that merging introduces (names get an @k suffix).
	exitObls := func(exit *State, results []Term, sfx string, blk *ssa.BasicBlock) string {
		penv := fr.baseEnv(exit)
		penv.old = fr.entry
		if blk != nil {
			// per return site (splitreturns): the locals live at that return are in scope
			penv.lookup = func(nm string) (SpecVal, bool) { return fr.lookupLocal(nm, blk, exit, nil) }
			penv.lookupAddr = fr.lookupLocalAddr
		}
		bindResults(penv, fn.Signature, results)
		// ghost assignments attached to the function exit
		for _, gs := range fc.Sets {
			gv := ctx.ghostVars[fc.PkgPath+"::"+gs.Var]
			if gv == nil {
				return "sets: unknown ghost variable " + gs.Var
			}
			v, err := penv.Eval(gs.E)
			if err != nil {
				return fmt.Sprintf("sets %s does not resolve: %v", gs.Var, err)
			}
			cur, _, _ := vc.ghostVar(exit, gv)
			t := v.T
			if v.Lit != nil {
				t = penv.litTerm(v.Lit, cur.Sort)
			}
			exit.ghost["gv!"+gv.PkgPath+"::"+gv.Name] = vc.Define("gs", t)
		}
		for _, en := range fc.Ensures {
			if en.Defines {
				vc.assume("definitional postcondition of " + res.FullName + " (defines " + en.Label + "): " + en.Src + " - assumed at call sites, not proved")
				continue
			}
			t, err := penv.EvalBool(en.E)
			if err != nil {
				return fmt.Sprintf("ensures %s does not resolve: %v", en.Label, err)
			}
			// instances of callee contracts used as spec functions are hypotheses of this obligation
			reach := And(append([]Term{exit.reach}, penv.assumes...)...)
			penv.assumes = nil
			bound := ""
			fullReach := reach
			if bc, ok := fc.Bounded[en.Label]; ok {
				benv := fr.baseEnv(fr.entry)
				benv.old = fr.entry
				bt, err := benv.EvalBool(bc.E)
				if err != nil {
					return fmt.Sprintf("bounded %s does not resolve: %v", en.Label, err)
				}
				reach = And(reach, bt)
				bound = bc.Src
			}
			vc.addObl(&Obligation{Name: "ensures:" + en.Label + sfx, Kind: "ensures", Reach: reach, Cond: t, Taint: exit.taint,
				Pos: ctx.prog.Fset.Position(fn.Pos()), Descr: en.Src, Spec: en.E, Bound: bound, FullReach: fullReach})
		}
		if fc.Appends != nil {
			ctx.appendsObligations(vc, fr, fc, exit, penv, sfx)
		}
		// frame: nothing allocated before the call changes outside the modifies clause
		if !fc.ModifiesAll {
			ctx.frameObligation(vc, fr, fc, exit, sfx)
		}
		return ""
	}
	if (fc.Appends != nil || fc.SplitReturns) && len(fr.rets) >= 2 && len(fr.rets) <= 16 {
		for k, rs := range fr.rets {
			if msg := exitObls(rs.st.clone(), rs.vals, fmt.Sprintf("@%d", k+1), rs.blk); msg != "" {
				res.Err = msg
				return res
			}
		}
		// the merged state still carries the ghost assignments for the cover check and replay
		_ = penv
	} else if msg := exitObls(exit, results, "", nil); msg != "" {
		res.Err = msg
		return res
	}
	vc.addObl(&Obligation{Name: "cover", Kind: "cover", Reach: exit.reach, Cond: False, IsCover: true, Taint: False,
		Pos: ctx.prog.Fset.Position(fn.Pos()), Descr: "precondition satisfiable and a return reachable"})
	res.Obls = vc.obls
	return res
}

// modifiesAllowed: per value sort, the conditions on the bound reference q!r under which the
// modifies clauses of fc (evaluated in the entry state of fr) permit a change.
func (ctx *Ctx) modifiesAllowed(vc *VC, fr *Frame, fc *FuncContract) (map[Sort][]Term, bool) {
	env := fr.baseEnv(fr.entry)
	env.old = fr.entry
	q := Term{"q!r", SRef}
	per := map[Sort][]Term{}
	bad := false
	for _, m := range fc.Modifies {
		var addr Term
		var t types.Type
		var count Term
		if m.Kind == ESlice {
			x, err := env.Eval(m.Args[0])
			if err != nil {
				bad = true
				vc.note("contract error: modifies: %v", err)
				continue
			}
			sl, ok := U(x.Ty).(*types.Slice)
			if !ok {
				bad = true
				continue
			}
			lo := IntLit(0)
			hi := SLen(x.T)
			if m.Args[1] != nil {
				if v, err := env.Eval(m.Args[1]); err == nil {
					lo = vc.toIndex(v.T, v.Ty)
				}
			}
			if m.Args[2] != nil {
				if v, err := env.Eval(m.Args[2]); err == nil {
					hi = vc.toIndex(v.T, v.Ty)
				}
			}
			addr = ElemAddr(SBase(x.T), lo, vc.tt.Slots(sl.Elem()))
			t = sl.Elem()
			count = Sub(hi, lo)
		} else {
			a, ty, err := env.addrOf(m)
			if err != nil {
				bad = true
				vc.note("contract error: modifies: %v", err)
				continue
			}
			addr, t = a, ty
		}
		leaf := map[Sort]bool{}
		vc.leafSorts(t, leaf)
		size := IntLit(vc.tt.Slots(t))
		if count.Valid() {
			size = Mul(count, size)
		}
		cond := And(Eq(Rid(q), Rid(addr)), Le(Roff(addr), Roff(q)), Lt(Roff(q), Add(Roff(addr), size)))
		for _, s := range sortedKeys(leaf) {
			per[s] = append(per[s], cond)
		}
	}
	for _, s := range vc.modifiedSorts(env, fc) {
		per[s] = append(per[s], True)
	}
	if fc.Appends != nil {
		b, es, n, err := vc.appendParts(env, fc.Appends)
		if err != nil {
			vc.note("contract error: appends: %v", err)
			return per, false
		}
		ln, cp, base := SLen(b), SCap(b), SBase(b)
		m := Ite(Le(Add(ln, n), cp), n, Sub(cp, ln))
		if fc.Appends.When != nil {
			m = Sub(cp, ln)
		}
		lo := Add(Roff(base), ln)
		per[es] = append(per[es], And(Eq(Rid(q), Rid(base)), Le(lo, Roff(q)), Lt(Roff(q), Add(lo, m))))
	}
	return per, !bad
}

func (ctx *Ctx) frameObligation(vc *VC, fr *Frame, fc *FuncContract, exit *State, sfx string) {
	q := Term{"q!r", SRef}
	per, ok := ctx.modifiesAllowed(vc, fr, fc)
	if !ok {
		return
	}
	var sl []string
	for _, s := range sortedKeys(vc.heapReg) {
		sl = append(sl, string(s))
	}
	sort.Strings(sl)
	type fc1 struct {
		what string
		t    Term
	}
	var parts []fc1
	var conj []Term
	_ = conj
	for _, ss := range sl {
		s := Sort(ss)
		h0 := vc.heap(fr.entry, s)
		h1 := vc.heap(exit, s)
		if h0.S == h1.S {
			continue
		}
		allowed := Or(per[s]...)
		body := Implies(And(Lt(Rid(q), fr.entry.alloc), Not(allowed)), Eq(Select(h1, q), Select(h0, q)))
		parts = append(parts, fc1{"heap " + ss, Term{fmt.Sprintf("(forall ((q!r Ref)) %s)", body.S), SBool}})
	}
	if !fc.ModifiesMaps {
		var mk []string
		for _, k := range sortedKeys(exit.maps) {
			mk = append(mk, k)
		}
		sort.Strings(mk)
		for _, key := range mk {
			kp := strings.SplitN(key, "|", 3)
			var h0, h1 Term
			if key == "len" {
				h0, h1 = vc.mapHeap(fr.entry, "len", "", ""), vc.mapHeap(exit, "len", "", "")
			} else {
				h0, h1 = vc.mapHeap(fr.entry, kp[0], Sort(kp[1]), Sort(kp[2])), vc.mapHeap(exit, kp[0], Sort(kp[1]), Sort(kp[2]))
			}
			if h0.S == h1.S {
				continue
			}
			parts = append(parts, fc1{"map heap " + key, Term{fmt.Sprintf("(forall ((q!i Int)) (=> (< q!i %s) (= (select %s q!i) (select %s q!i))))", fr.entry.alloc.S, h1.S, h0.S), SBool}})
		}
	}
	// ghost variables not listed under assigns keep their value
	assigned := map[string]bool{}
	for _, g := range fc.Assigns {
		assigned[ctx.ghostKey(fc.PkgPath, g)] = true
	}
	for _, gs := range fc.Sets {
		assigned[fc.PkgPath+"::"+gs.Var] = true
	}
	var gk []string
	for _, k := range sortedKeys(exit.ghost) {
		gk = append(gk, k)
	}
	sort.Strings(gk)
	for _, k := range gk {
		if !strings.HasPrefix(k, "gv!") || assigned[k[3:]] {
			continue
		}
		if gv := ctx.ghostVars[k[3:]]; gv != nil {
			g0, _, _ := vc.ghostVar(fr.entry, gv)
			g1, _, _ := vc.ghostVar(exit, gv)
			parts = append(parts, fc1{"ghost " + k[3:], Eq(g1, g0)})
		}
	}
	if len(parts) == 0 {
		return
	}
	var all []Term
	var whats []string
	for _, p := range parts {
		all = append(all, p.t)
		whats = append(whats, p.what)
	}
	vc.addObl(&Obligation{Name: "frame" + sfx, Kind: "frame", Reach: exit.reach, Cond: And(all...), Taint: exit.taint,
		Pos: ctx.prog.Fset.Position(fr.fn.Pos()), Descr: "only locations in the modifies/assigns clauses change (" + strings.Join(whats, "; ") + ")"})
}

func (ctx *Ctx) genLemma(fc *FuncContract, res *FuncResult) {
	vc := NewVC(ctx, nil, fc, res.FullName)
	res.VC = vc
	pkg := ctx.typesPkg(fc.PkgPath)
	st := &State{reach: True, taint: False, base: "0", mbase: "0", heaps: map[Sort]Term{}, maps: map[string]Term{}, ghost: map[string]Term{}, alloc: IntLit(1)}
	env := &SpecEnv{vc: vc, vars: map[string]SpecVal{}, cur: st, old: st, pkg: pkg, inLemma: true}
	for _, p := range fc.LemmaParams {
		ty, err := env.resolveTypeName(p.Type)
		if err != nil {
			res.Err = err.Error()
			return
		}
		var srt Sort = SInt
		if ty != nil {
			srt, err = vc.tt.SortOf(ty)
			if err != nil {
				res.Err = err.Error()
				return
			}
		}
		t := vc.Fresh("p_"+p.Name, srt)
		env.vars[p.Name] = SpecVal{T: t, Ty: ty}
		if ty != nil {
			st.assume(vc.rangeAssumption(t, ty, st.alloc))
		}
		vc.inputs = append(vc.inputs, WatchTerm{p.Name, t})
	}
	for _, rq := range fc.Requires {
		t, err := env.EvalBool(rq.E)
		if err != nil {
			res.Err = fmt.Sprintf("requires %s does not resolve: %v", rq.Label, err)
			return
		}
		st.assume(t)
	}
	type pend struct {
		label, src string
		t          Term
	}
	var ps []pend
	for _, en := range fc.Ensures {
		t, err := env.EvalBool(en.E)
		if err != nil {
			res.Err = fmt.Sprintf("ensures %s does not resolve: %v", en.Label, err)
			return
		}
		ps = append(ps, pend{en.Label, en.Src, t})
	}
	for _, a := range env.assumes {
		st.assume(a)
	}
	for _, p := range ps {
		vc.addObl(&Obligation{Name: "lemma:" + p.label, Kind: "lemma", Reach: st.reach, Cond: p.t, Taint: False, Descr: p.src})
	}
	vc.addObl(&Obligation{Name: "cover", Kind: "cover", Reach: st.reach, Cond: False, IsCover: true, Taint: False, Descr: "lemma hypotheses satisfiable"})
	res.Obls = vc.obls
}

// Query renders the SMT-LIB query for one obligation.
func (vc *VC) Query(o *Obligation, forCVC5 bool, withModel bool) string {
	var sb strings.Builder
	if forCVC5 {
		sb.WriteString("(set-option :produce-models true)\n(set-logic ALL)\n")
	} else {
		sb.WriteString("(set-option :produce-models true)\n")
	}
	sb.WriteString(smtPrelude)
	if vc.declsCache != "" {
		sb.WriteString(vc.declsCache)
	} else {
		sb.WriteString(vc.tt.Decls())
	}
	if forCVC5 {
		sb.WriteString(vc.declsC.String())
	} else {
		sb.WriteString(vc.decls.String())
	}
	for _, a := range vc.axioms {
		if o.relaxAxioms && strings.HasPrefix(a, "(forall") {
			continue
		}
		fmt.Fprintf(&sb, "(assert %s)\n", a)
	}
	fmt.Fprintf(&sb, "(assert %s)\n", o.Reach.S)
	for _, e := range o.Extra {
		fmt.Fprintf(&sb, "(assert %s)\n", e.S)
	}
	if !o.IsCover {
		fmt.Fprintf(&sb, "(assert (not %s))\n", o.Cond.S)
	}
	// watched terms that read a lambda-defined heap are not accepted by get-value ("must not
	// contain quantifiers"): they are named by fresh constants
	var watchNames []string
	if withModel {
		for i, w := range o.Watch {
			if strings.Contains(w.T.S, "select") && w.T.Sort != "" {
				n := fmt.Sprintf("gw!%d", i)
				fmt.Fprintf(&sb, "(declare-const %s %s)\n(assert (= %s %s))\n", n, w.T.Sort, n, w.T.S)
				watchNames = append(watchNames, n)
			} else {
				watchNames = append(watchNames, w.T.S)
			}
		}
	}
	sb.WriteString("(check-sat)\n")
	if withModel {
		var ws []string
		if o.Taint.Valid() && o.Taint.S != "false" {
			ws = append(ws, o.Taint.S)
		}
		for _, w := range vc.inputs {
			ws = append(ws, w.T.S)
			if w.T.Sort == SSlice {
				// a few leading elements (bytes / ints)
			}
		}
		ws = append(ws, watchNames...)
		if len(ws) > 0 {
			fmt.Fprintf(&sb, "(get-value (%s))\n", strings.Join(ws, " "))
		}
	}
	return sb.String()
}

// appendsObligations: the function under contract behaves like append(p, n elements).
func (ctx *Ctx) appendsObligations(vc *VC, fr *Frame, fc *FuncContract, exit *State, penv *SpecEnv, sfx string) {
	env := fr.baseEnv(fr.entry)
	env.old = fr.entry
	b, es, n, err := vc.appendParts(env, fc.Appends)
	if err != nil {
		vc.note("contract error: appends: %v", err)
		return
	}
	rv, ok := penv.vars["result0"]
	if !ok {
		rv, ok = penv.vars["result"]
	}
	if !ok || rv.T.Sort != SSlice {
		vc.note("contract error: appends: the first result is not a slice")
		return
	}
	r := rv.T
	ln, cp, base := SLen(b), SCap(b), SBase(b)
	fits := Le(Add(ln, n), cp)
	pos := ctx.prog.Fset.Position(fr.fn.Pos())
	when := True
	if fc.Appends.When != nil {
		w, err := penv.EvalBool(fc.Appends.When)
		if err != nil {
			vc.note("contract error: appends ... when: %v", err)
			return
		}
		when = w
	}
	as := fc.Appends
	execSpec := map[string]string{
		"length": fmt.Sprintf("(%s) ==> len(result0) == len(%s) + (%s)", as.WhenSrc, as.Param, as.NSrc),
		"prefix": fmt.Sprintf("(%s) ==> (forall j int :: 0 <= j && j < old(len(%s)) ==> result0[j] == old(%s[j]))", as.WhenSrc, as.Param, as.Param),
	}
	if fr.fn.Signature.Results().Len() == 1 {
		for k, v := range execSpec {
			execSpec[k] = strings.ReplaceAll(v, "result0", "result")
		}
	}
	add := func(name string, cond Term, descr string) {
		cond = Implies(when, cond)
		ob := &Obligation{Name: "appends:" + name + sfx, Kind: "ensures", Reach: exit.reach, Cond: cond, Taint: exit.taint, Pos: pos,
			Descr: "appends " + fc.Appends.Src + ": " + descr}
		if src, ok := execSpec[name]; ok {
			if e, err := ParseSpec(src); err == nil {
				ob.Spec = e
			}
		}
		vc.addObl(ob)
	}
	add("count", Ge(n, IntLit(0)), "the count is not negative")
	add("length", Eq(SLen(r), Add(ln, n)), "the result is n elements longer")
	add("inplace", Implies(fits, And(Eq(SBase(r), base), Eq(SCap(r), cp))), "when the elements fit the capacity the result shares the array")
	add("fresh", Implies(Not(fits), Ge(Rid(SBase(r)), fr.entry.alloc)), "when they do not fit the result is a new array")
	h0, h1 := vc.heap(fr.entry, es), vc.heap(exit, es)
	j := Term{"q!j", SInt}
	add("prefix", Term{fmt.Sprintf("(forall ((q!j Int)) (=> (and (<= 0 q!j) (< q!j %s)) (= (select %s %s) (select %s %s))))", ln.S,
		h1.S, ElemAddr(SBase(r), j, 1).S, h0.S, ElemAddr(base, j, 1).S), SBool}, "the old elements are kept")
}
