package main

import (
	"fmt"
	"go/types"
	"math/big"
)

type bigInt = big.Int

const maxUnroll = 40

// zeroValue returns the zero value term of Go type t.
func (vc *VC) zeroValue(t types.Type) (Term, error) {
	srt, err := vc.tt.SortOf(t)
	if err != nil {
		return Term{}, err
	}
	if _, ok := vc.tt.isOpaque(t); ok {
		name := "zero!" + sanitize(string(srt))
		vc.DeclareFun(name, nil, srt)
		return Term{name, srt}, nil
	}
	if isAbstractTP(t) {
		name := "zero!" + sanitize(string(srt))
		vc.DeclareFun(name, nil, srt)
		return Term{name, srt}, nil
	}
	switch u := U(t).(type) {
	case *types.Basic:
		switch {
		case srt == SBool:
			return False, nil
		case srt == SInt:
			return IntLit(0), nil
		case srt == SStr:
			return vc.strLit(""), nil
		case srt == SRef:
			return NullRef, nil
		}
		if w, ok := srt.IsBV(); ok {
			return BVLit(big.NewInt(0), w), nil
		}
	case *types.Pointer, *types.Map, *types.Chan:
		return NullRef, nil
	case *types.Slice:
		return NilSlice, nil
	case *types.Interface:
		return NilIface, nil
	case *types.Signature:
		vc.DeclareFun("fn!nil", nil, SFunc)
		return Term{"fn!nil", SFunc}, nil
	case *types.Struct:
		var args []Term
		for i := 0; i < u.NumFields(); i++ {
			z, err := vc.zeroValue(u.Field(i).Type())
			if err != nil {
				return Term{}, err
			}
			args = append(args, z)
		}
		if len(args) == 0 {
			return Term{"mk!" + string(srt), srt}, nil
		}
		return App(srt, "mk!"+string(srt), args...), nil
	case *types.Array:
		z, err := vc.zeroValue(u.Elem())
		if err != nil {
			return Term{}, err
		}
		return Term{fmt.Sprintf("((as const %s) %s)", srt, z.S), srt}, nil
	}
	return Term{}, fmt.Errorf("no zero value for %s", t)
}

func (vc *VC) strLit(s string) Term {
	if t, ok := vc.strLits[s]; ok {
		return t
	}
	name := fmt.Sprintf("str!%d", len(vc.strLits))
	vc.DeclareFun(name, nil, SStr)
	t := Term{name, SStr}
	vc.axioms = append(vc.axioms, fmt.Sprintf("(= (strlen %s) %d)", name, len(s)))
	if s == "" {
		vc.DeclareFun("strlt", []Sort{SStr, SStr}, SBool)
		vc.axioms = append(vc.axioms, fmt.Sprintf("(forall ((q!s Str)) (! (=> (= (strlen q!s) 0) (= q!s %s)) :pattern ((strlen q!s))))", name))
		vc.axioms = append(vc.axioms, fmt.Sprintf("(forall ((q!s Str)) (! (not (strlt q!s %s)) :pattern ((strlt q!s %s))))", name, name))
	}
	for _, k := range sortedKeys(vc.strLits) {
		vc.axioms = append(vc.axioms, fmt.Sprintf("(distinct %s %s)", name, vc.strLits[k].S))
	}
	vc.strLits[s] = t
	return t
}

// loadAt reads a value of type t from address addr. Type invariants of the
// loaded value are added to the state's path condition.
func (vc *VC) loadAt(st *State, addr Term, t types.Type) (Term, error) {
	v, err := vc.loadRaw(st, addr, t)
	if err != nil {
		return Term{}, err
	}
	v = vc.Define("ld", v)
	bound := st.alloc
	if !vc.tt.isAggregate(t) {
		if srt, err := vc.tt.SortOf(t); err == nil {
			bound = vc.heapBound(st, srt)
		}
	}
	st.assume(vc.rangeAssumption(v, t, bound))
	return v, nil
}

func (vc *VC) loadRaw(st *State, addr Term, t types.Type) (Term, error) {
	srt, err := vc.tt.SortOf(t)
	if err != nil {
		return Term{}, err
	}
	if vc.tt.isAggregate(t) {
		switch u := U(t).(type) {
		case *types.Struct:
			var args []Term
			for i := 0; i < u.NumFields(); i++ {
				fv, err := vc.loadRaw(st, RefAdd(addr, IntLit(vc.tt.FieldOffset(u, i))), u.Field(i).Type())
				if err != nil {
					return Term{}, err
				}
				args = append(args, fv)
			}
			if len(args) == 0 {
				return Term{"mk!" + string(srt), srt}, nil
			}
			return App(srt, "mk!"+string(srt), args...), nil
		case *types.Array:
			if u.Len() > maxUnroll {
				return Term{}, fmt.Errorf("array of %d elements too long to load by value", u.Len())
			}
			z, err := vc.zeroValue(u.Elem())
			if err != nil {
				return Term{}, err
			}
			arr := Term{fmt.Sprintf("((as const %s) %s)", srt, z.S), srt}
			k := vc.tt.Slots(u.Elem())
			for i := int64(0); i < u.Len(); i++ {
				ev, err := vc.loadRaw(st, RefAdd(addr, IntLit(1+i*k)), u.Elem())
				if err != nil {
					return Term{}, err
				}
				arr = Store(arr, IntLit(i), ev)
			}
			return arr, nil
		}
	}
	return Select(vc.peelHeap(vc.heap(st, srt), addr), addr), nil
}

func (vc *VC) storeAt(st *State, addr Term, t types.Type, v Term) error {
	srt, err := vc.tt.SortOf(t)
	if err != nil {
		return err
	}
	if vc.tt.isAggregate(t) {
		switch u := U(t).(type) {
		case *types.Struct:
			for i := 0; i < u.NumFields(); i++ {
				fs, err := vc.tt.SortOf(u.Field(i).Type())
				if err != nil {
					return err
				}
				if err := vc.storeAt(st, RefAdd(addr, IntLit(vc.tt.FieldOffset(u, i))), u.Field(i).Type(), App(fs, structFieldAccessor(srt, i), v)); err != nil {
					return err
				}
			}
			return nil
		case *types.Array:
			if u.Len() > maxUnroll {
				return fmt.Errorf("array of %d elements too long to store by value", u.Len())
			}
			k := vc.tt.Slots(u.Elem())
			for i := int64(0); i < u.Len(); i++ {
				if err := vc.storeAt(st, RefAdd(addr, IntLit(1+i*k)), u.Elem(), Select(v, IntLit(i))); err != nil {
					return err
				}
			}
			return nil
		}
	}
	old := vc.heap(st, srt)
	vc.setHeap(st, srt, Store(old, addr, v))
	vc.noteLayer(st.heaps[srt], old, addr)
	return nil
}

// leafSorts lists the scalar sorts that occur in the layout of t.
func (vc *VC) leafSorts(t types.Type, out map[Sort]bool) {
	if vc.tt.isAggregate(t) {
		switch u := U(t).(type) {
		case *types.Struct:
			for i := 0; i < u.NumFields(); i++ {
				vc.leafSorts(u.Field(i).Type(), out)
			}
		case *types.Array:
			vc.leafSorts(u.Elem(), out)
		}
		return
	}
	if s, err := vc.tt.SortOf(t); err == nil {
		out[s] = true
	}
}

// allocObject returns a fresh object reference and bumps the allocation counter.
func (vc *VC) allocObject(st *State, t types.Type) Term {
	id := vc.Define("new", st.alloc)
	vc.noteFreshRid(id)
	st.alloc = vc.Define("alloc", Add(st.alloc, IntLit(1)))
	r := MkRef(id, IntLit(0))
	st.assume(Ge(id, IntLit(1)))
	if t != nil {
		st.assume(Eq(App(SInt, "dyn", r), IntLit(int64(vc.tt.TID(t)))))
		if _, isStruct := U(t).(*types.Struct); isStruct {
			st.assume(Eq(App(SInt, "otype", id), IntLit(int64(vc.tt.TID(t)))))
		}
	} else {
		// untyped allocation: the backing store of a slice / map / boxed interface value
		st.assume(Lt(App(SInt, "otype", id), IntLit(0)))
	}
	return r
}

// zeroRange makes every slot of the given sorts in object rid zero, by a
// quantified assumption over a fresh heap (used for make([]T, n)).
func (vc *VC) zeroFill(st *State, base Term, t types.Type) error {
	sorts := map[Sort]bool{}
	vc.leafSorts(t, sorts)
	for _, s := range sortedKeys(sorts) {
		old := vc.heap(st, s)
		z, err := vc.zeroOfSort(s)
		if err != nil {
			return err
		}
		q := Term{"q!r", SRef}
		nh := vc.LambdaHeap("hz", s, Ite(Eq(Rid(q), Rid(base)), z, Select(old, q)))
		st.heaps[s] = nh
		st.touch(s)
		vc.heapReg[s] = true
	}
	return nil
}

func (vc *VC) zeroOfSort(s Sort) (Term, error) {
	switch s {
	case SInt:
		return IntLit(0), nil
	case SBool:
		return False, nil
	case SRef:
		return NullRef, nil
	case SSlice:
		return NilSlice, nil
	case SIface:
		return NilIface, nil
	case SStr:
		return vc.strLit(""), nil
	}
	if w, ok := s.IsBV(); ok {
		return BVLit(big.NewInt(0), w), nil
	}
	name := "zero!" + sanitize(string(s))
	vc.DeclareFun(name, nil, s)
	return Term{name, s}, nil
}
