package main

import (
	"fmt"
	"go/constant"
	"go/token"
	"go/types"
	"math/big"
)

func (vc *VC) wrap(e Term, w int, signed bool) Term {
	m := IntLitBig(pow2(w))
	if !signed {
		return App(SInt, "mod", e, m)
	}
	h := IntLitBig(pow2(w - 1))
	return Sub(App(SInt, "mod", Add(e, h), m), h)
}

func bvOp(op string, a, b Term) Term { return App(a.Sort, op, a, b) }

// truncated division / remainder on mathematical integers (Go semantics).
func truncDiv(a, b Term) Term {
	// a/b truncated toward zero
	q := App(SInt, "div", App(SInt, "abs", a), App(SInt, "abs", b))
	neg := App(SBool, "xor", Lt(a, IntLit(0)), Lt(b, IntLit(0)))
	return Ite(neg, App(SInt, "-", q), q)
}
func truncRem(a, b Term) Term {
	r := App(SInt, "mod", App(SInt, "abs", a), App(SInt, "abs", b))
	return Ite(Lt(a, IntLit(0)), App(SInt, "-", r), r)
}

func isPow2Minus1(n *big.Int) (int, bool) {
	if n.Sign() < 0 {
		return 0, false
	}
	m := new(big.Int).Add(n, big.NewInt(1))
	if m.BitLen() > 0 && new(big.Int).And(m, n).Sign() == 0 {
		return m.BitLen() - 1, true
	}
	return 0, false
}

func constIntOf(t Term) (*big.Int, bool) {
	if t.Sort == SInt {
		if v, ok := new(big.Int).SetString(t.S, 10); ok {
			return v, true
		}
		var s string
		if n, _ := fmt.Sscanf(t.S, "(- %s", &s); n == 1 {
			s = s[:len(s)-1]
			if v, ok := new(big.Int).SetString(s, 10); ok {
				return v.Neg(v), true
			}
		}
		return nil, false
	}
	if w, ok := t.Sort.IsBV(); ok {
		var s string
		var w2 int
		if n, _ := fmt.Sscanf(t.S, "(_ bv%s %d)", &s, &w2); n == 2 && w2 == w {
			if v, ok := new(big.Int).SetString(s, 10); ok {
				return v, true
			}
		}
	}
	return nil, false
}

// binop computes x op y for Go integer/bool operands of type t (operand type);
// for shifts ty is the type of the shift count. It returns the value and an
// optional safety condition (e.g. divisor != 0).
func (vc *VC) binop(op token.Token, x, y Term, t types.Type, ty types.Type) (Term, Term, error) {
	safe := True
	w, signed, isInt := isIntType(t)
	if _, ok := vc.tt.isOpaque(t); ok {
		isInt = false
	}
	switch op {
	case token.EQL:
		return vc.valueEq(x, y, t), safe, nil
	case token.NEQ:
		return Not(vc.valueEq(x, y, t)), safe, nil
	}
	if b, ok := U(t).(*types.Basic); ok && (b.Kind() == types.Bool || b.Kind() == types.UntypedBool) {
		switch op {
		case token.LAND, token.AND:
			return And(x, y), safe, nil
		case token.LOR, token.OR:
			return Or(x, y), safe, nil
		case token.XOR:
			return App(SBool, "xor", x, y), safe, nil
		}
	}
	if b, ok := U(t).(*types.Basic); ok && b.Info()&types.IsString != 0 {
		switch op {
		case token.ADD:
			vc.DeclareFun("strcat", []Sort{SStr, SStr}, SStr)
			r := App(SStr, "strcat", x, y)
			return r, safe, nil
		case token.LSS, token.LEQ, token.GTR, token.GEQ:
			vc.DeclareFun("strlt", []Sort{SStr, SStr}, SBool)
			lt := func(a, b Term) Term { return App(SBool, "strlt", a, b) }
			switch op {
			case token.LSS:
				return lt(x, y), safe, nil
			case token.GTR:
				return lt(y, x), safe, nil
			case token.LEQ:
				return Not(lt(y, x)), safe, nil
			default:
				return Not(lt(x, y)), safe, nil
			}
		}
	}
	if !isInt {
		return Term{}, safe, fmt.Errorf("binop %s on unsupported type %s", op, t)
	}
	if vc.mode == ModeBV {
		switch op {
		case token.ADD:
			return bvOp("bvadd", x, y), safe, nil
		case token.SUB:
			return bvOp("bvsub", x, y), safe, nil
		case token.MUL:
			return bvOp("bvmul", x, y), safe, nil
		case token.QUO:
			safe = Neq(y, BVLit(big.NewInt(0), w))
			if signed {
				return bvOp("bvsdiv", x, y), safe, nil
			}
			return bvOp("bvudiv", x, y), safe, nil
		case token.REM:
			safe = Neq(y, BVLit(big.NewInt(0), w))
			if signed {
				return bvOp("bvsrem", x, y), safe, nil
			}
			return bvOp("bvurem", x, y), safe, nil
		case token.AND:
			return bvOp("bvand", x, y), safe, nil
		case token.OR:
			return bvOp("bvor", x, y), safe, nil
		case token.XOR:
			return bvOp("bvxor", x, y), safe, nil
		case token.AND_NOT:
			return bvOp("bvand", x, App(y.Sort, "bvnot", y)), safe, nil
		case token.SHL, token.SHR:
			cw, csigned, _ := isIntType(ty)
			cnt := y
			if cw < w {
				cnt = App(SBV(w), fmt.Sprintf("(_ zero_extend %d)", w-cw), y)
			} else if cw > w {
				big1 := App(SBool, "bvuge", y, BVLit(big.NewInt(int64(w)), cw))
				low := App(SBV(w), fmt.Sprintf("(_ extract %d 0)", w-1), y)
				var sat Term
				if w >= 8 || true {
					sat = BVLit(big.NewInt(int64(w)), w)
					if big.NewInt(int64(w)).Cmp(pow2(w)) >= 0 {
						sat = BVLit(new(big.Int).Sub(pow2(w), big.NewInt(1)), w)
					}
				}
				cnt = Ite(big1, sat, low)
			}
			if csigned {
				safe = App(SBool, "bvsge", y, BVLit(big.NewInt(0), cw))
			}
			if op == token.SHL {
				return bvOp("bvshl", x, cnt), safe, nil
			}
			if signed {
				return bvOp("bvashr", x, cnt), safe, nil
			}
			return bvOp("bvlshr", x, cnt), safe, nil
		case token.LSS, token.LEQ, token.GTR, token.GEQ:
			ops := map[token.Token][2]string{token.LSS: {"bvult", "bvslt"}, token.LEQ: {"bvule", "bvsle"}, token.GTR: {"bvugt", "bvsgt"}, token.GEQ: {"bvuge", "bvsge"}}
			o := ops[op][0]
			if signed {
				o = ops[op][1]
			}
			return App(SBool, o, x, y), safe, nil
		}
		return Term{}, safe, fmt.Errorf("unsupported bv binop %s", op)
	}
	// ModeInt
	switch op {
	case token.ADD:
		return vc.wrap(Add(x, y), w, signed), safe, nil
	case token.SUB:
		return vc.wrap(Sub(x, y), w, signed), safe, nil
	case token.MUL:
		return vc.wrap(Mul(x, y), w, signed), safe, nil
	case token.QUO:
		safe = Neq(y, IntLit(0))
		if c, ok := constIntOf(y); ok && c.Sign() != 0 {
			safe = True
		}
		if signed {
			return vc.wrap(truncDiv(x, y), w, signed), safe, nil
		}
		return App(SInt, "div", x, y), safe, nil
	case token.REM:
		safe = Neq(y, IntLit(0))
		if c, ok := constIntOf(y); ok && c.Sign() != 0 {
			safe = True
		}
		if signed {
			return truncRem(x, y), safe, nil
		}
		return App(SInt, "mod", x, y), safe, nil
	case token.LSS:
		return Lt(x, y), safe, nil
	case token.LEQ:
		return Le(x, y), safe, nil
	case token.GTR:
		return Gt(x, y), safe, nil
	case token.GEQ:
		return Ge(x, y), safe, nil
	case token.AND:
		if c, ok := constIntOf(y); ok {
			if k, ok := isPow2Minus1(c); ok && !signed {
				return App(SInt, "mod", x, IntLitBig(pow2(k))), safe, nil
			}
		}
		if c, ok := constIntOf(x); ok {
			if k, ok := isPow2Minus1(c); ok && !signed {
				return App(SInt, "mod", y, IntLitBig(pow2(k))), safe, nil
			}
		}
		return Term{}, safe, fmt.Errorf("bitwise & with non-mask operand in arith int mode")
	case token.SHL, token.SHR:
		_, csigned, _ := isIntType(ty)
		if csigned {
			safe = Ge(y, IntLit(0))
		}
		if c, ok := constIntOf(y); ok && c.IsInt64() && c.Int64() >= 0 && c.Int64() < 512 {
			p := IntLitBig(pow2(int(c.Int64())))
			if op == token.SHL {
				return vc.wrap(Mul(x, p), w, signed), safe, nil
			}
			return App(SInt, "div", x, p), safe, nil // floor division == arithmetic shift for negatives too
		}
		// variable count: 2^y by ite chain
		p := IntLitBig(pow2(w))
		for i := w - 1; i >= 0; i-- {
			p = Ite(Eq(y, IntLit(int64(i))), IntLitBig(pow2(i)), p)
		}
		p = vc.Define("pow2", p)
		if op == token.SHL {
			return vc.wrap(Mul(x, p), w, signed), safe, nil
		}
		return App(SInt, "div", x, p), safe, nil
	}
	return Term{}, safe, fmt.Errorf("unsupported int binop %s (use arith bv)", op)
}

// valueEq is Go's == on values of type t.
func (vc *VC) valueEq(x, y Term, t types.Type) Term {
	switch U(t).(type) {
	case *types.Slice:
		// only comparison with nil is legal in Go
		return Eq(Rid(SBase(x)), Rid(SBase(y)))
	}
	return Eq(x, y)
}

// constTerm translates an ssa constant.
func (vc *VC) constTerm(val constant.Value, t types.Type) (Term, error) {
	if val == nil {
		return vc.zeroValue(t)
	}
	if _, ok := vc.tt.isOpaque(t); ok {
		return Term{}, fmt.Errorf("constant of opaque type %s", t)
	}
	switch val.Kind() {
	case constant.Bool:
		return BoolLit(constant.BoolVal(val)), nil
	case constant.Int:
		bi, ok := new(big.Int).SetString(val.ExactString(), 10)
		if !ok {
			return Term{}, fmt.Errorf("bad int constant %s", val)
		}
		if vc.mode == ModeBV {
			if w, _, ok := isIntType(t); ok {
				return BVLit(bi, w), nil
			}
		}
		return IntLitBig(bi), nil
	case constant.String:
		return vc.strLit(constant.StringVal(val)), nil
	}
	return Term{}, fmt.Errorf("unsupported constant %s", val)
}

// convertInt converts an integer value between Go integer types.
func (vc *VC) convertInt(x Term, from, to types.Type) (Term, error) {
	fw, fs, ok1 := isIntType(from)
	tw, ts, ok2 := isIntType(to)
	if !ok1 || !ok2 {
		return Term{}, fmt.Errorf("convert %s -> %s", from, to)
	}
	if vc.mode == ModeBV {
		switch {
		case tw == fw:
			return x, nil
		case tw > fw:
			if fs {
				return App(SBV(tw), fmt.Sprintf("(_ sign_extend %d)", tw-fw), x), nil
			}
			return App(SBV(tw), fmt.Sprintf("(_ zero_extend %d)", tw-fw), x), nil
		default:
			return App(SBV(tw), fmt.Sprintf("(_ extract %d 0)", tw-1), x), nil
		}
	}
	// ModeInt: identity if the source range fits
	if fs == ts && tw >= fw {
		return x, nil
	}
	if !fs && ts && tw > fw {
		return x, nil
	}
	return vc.wrap(x, tw, ts), nil
}

// toIndex converts a Go integer value used as an index / length into Int.
func (vc *VC) toIndex(x Term, t types.Type) Term {
	if x.Sort == SInt {
		return x
	}
	if c, ok := constIntOf(x); ok {
		_, signed, _ := isIntType(t)
		w, _ := x.Sort.IsBV()
		if signed && c.Bit(w-1) == 1 {
			c = new(big.Int).Sub(c, pow2(w))
		}
		return IntLitBig(c)
	}
	w, _ := x.Sort.IsBV()
	_, signed, _ := isIntType(t)
	u := App(SInt, "bv2nat", x)
	if signed {
		return Ite(App(SBool, "bvslt", x, BVLit(big.NewInt(0), w)), Sub(u, IntLitBig(pow2(w))), u)
	}
	return u
}

// fromIndex converts an Int (length etc.) into a Go value of integer type t.
func (vc *VC) fromIndex(st *State, x Term, t types.Type) Term {
	if vc.mode == ModeInt {
		return x
	}
	w, _, _ := isIntType(t)
	if c, ok := constIntOf(x); ok {
		return BVLit(c, w)
	}
	v := vc.Fresh("ix", SBV(w))
	// lengths are non-negative and < 2^62, so bv2nat characterises v uniquely
	st.assume(Eq(App(SInt, "bv2nat", v), x))
	return v
}
