package main

import (
	"fmt"
	"go/constant"
	"go/token"
	"go/types"
	"golang.org/x/tools/go/ssa"
	"math/big"
	"strings"
)

// SpecVal is the value of a spec expression.
type SpecVal struct {
	T   Term
	Ty  types.Type // Go type if any (nil: mathematical int / bool / untyped)
	Lit *big.Int   // untyped integer literal (T is its Int rendering)
}

type SpecEnv struct {
	vc         *VC
	vars       map[string]SpecVal
	cur        *State
	old        *State
	pkg        *types.Package
	lookup     func(name string) (SpecVal, bool)          // extra resolver (locals at a loop header)
	lookupAddr func(name string) (Term, types.Type, bool) // address of a local that lives in memory (&x in invariants)
	// side conditions collected while evaluating (definedness assumptions of
	// contract instantiations inside lemmas); they are assumed, not proved.
	assumes []Term
	inLemma bool
	// loop invariants: parameters the loop reassigns are shadowed by the loop-carried value
	shadow     func(name string) (SpecVal, bool)
	shadowable map[string]SpecVal
	inOld      bool
	rangeOf    func(ord int) (string, bool) // ghost key of the map range driving loop ord (0: the loop being annotated)
	tparams    map[string]types.Type        // type parameters of the function under contract (usable as quantifier types)
	loopPre    *State                       // loop invariants: the state in which the loop being annotated was entered (atentry(e))
}

func (env *SpecEnv) child() *SpecEnv {
	n := *env
	n.vars = make(map[string]SpecVal, len(env.vars))
	for k, v := range env.vars {
		n.vars[k] = v
	}
	return &n
}

func (env *SpecEnv) EvalBool(e *Expr) (Term, error) {
	v, err := env.Eval(e)
	if err != nil {
		return Term{}, err
	}
	if v.T.Sort != SBool {
		return Term{}, fmt.Errorf("expected a boolean in %q, got sort %s", e.String(), v.T.Sort)
	}
	return v.T, nil
}

func (env *SpecEnv) resolveTypeName(name string) (types.Type, error) {
	switch {
	case strings.HasPrefix(name, "[]"):
		t, err := env.resolveTypeName(name[2:])
		if err != nil {
			return nil, err
		}
		return types.NewSlice(t), nil
	case strings.HasPrefix(name, "*"):
		t, err := env.resolveTypeName(name[1:])
		if err != nil {
			return nil, err
		}
		return types.NewPointer(t), nil
	}
	if name == "mathint" {
		return nil, nil
	}
	if t, ok := env.tparams[strings.TrimPrefix(name, "_")]; ok {
		return t, nil
	}
	if obj := types.Universe.Lookup(name); obj != nil {
		if tn, ok := obj.(*types.TypeName); ok {
			return tn.Type(), nil
		}
	}
	if pk, n, ok := strings.Cut(name, "."); ok {
		if env.pkg != nil {
			for _, imp := range env.pkg.Imports() {
				if imp.Name() == pk {
					if obj := imp.Scope().Lookup(n); obj != nil {
						if tn, ok := obj.(*types.TypeName); ok {
							return tn.Type(), nil
						}
					}
				}
			}
		}
		// try all known packages by name
		for _, p := range env.vc.ctx.typePkgs {
			if p.Name() == pk {
				if obj := p.Scope().Lookup(n); obj != nil {
					if tn, ok := obj.(*types.TypeName); ok {
						return tn.Type(), nil
					}
				}
			}
		}
		return nil, fmt.Errorf("cannot resolve type %q", name)
	}
	if env.pkg != nil {
		if obj := env.pkg.Scope().Lookup(name); obj != nil {
			if tn, ok := obj.(*types.TypeName); ok {
				return tn.Type(), nil
			}
		}
	}
	return nil, fmt.Errorf("cannot resolve type %q", name)
}

func (env *SpecEnv) litTerm(v *big.Int, want Sort) Term {
	if w, ok := want.IsBV(); ok {
		return BVLit(v, w)
	}
	return IntLitBig(v)
}

// unify coerces untyped literals to the other operand's sort.
func (env *SpecEnv) unify(a, b SpecVal) (SpecVal, SpecVal, error) {
	if a.T.Sort == b.T.Sort {
		return a, b, nil
	}
	if a.Lit != nil {
		if _, ok := b.T.Sort.IsBV(); ok {
			a.T = env.litTerm(a.Lit, b.T.Sort)
			a.Ty = b.Ty
			return a, b, nil
		}
	}
	if b.Lit != nil {
		if _, ok := a.T.Sort.IsBV(); ok {
			b.T = env.litTerm(b.Lit, a.T.Sort)
			b.Ty = a.Ty
			return a, b, nil
		}
	}
	return a, b, fmt.Errorf("operands have different sorts: %s vs %s", a.T.Sort, b.T.Sort)
}

func isSignedTy(t types.Type) bool {
	if t == nil {
		return true
	}
	_, s, ok := isIntType(t)
	return ok && s
}

func (env *SpecEnv) Eval(e *Expr) (SpecVal, error) {
	vc := env.vc
	switch e.Kind {
	case EBool:
		return SpecVal{T: BoolLit(e.B)}, nil
	case EInt:
		return SpecVal{T: IntLitBig(e.Val), Lit: e.Val}, nil
	case ENil:
		return SpecVal{T: NullRef, Lit: nil, Ty: types.Typ[types.UntypedNil]}, nil
	case EStr:
		return SpecVal{T: vc.strLit(e.Name), Ty: types.Typ[types.String]}, nil
	case EIdent:
		return env.ident(e.Name)
	case EUnary:
		if e.Op == "&" {
			a, t, err := env.addrOf(e.Args[0])
			if err != nil {
				return SpecVal{}, err
			}
			return SpecVal{T: a, Ty: types.NewPointer(t)}, nil
		}
		x, err := env.Eval(e.Args[0])
		if err != nil {
			return SpecVal{}, err
		}
		switch e.Op {
		case "!":
			if x.T.Sort != SBool {
				return SpecVal{}, fmt.Errorf("! applied to non-bool")
			}
			return SpecVal{T: Not(x.T)}, nil
		case "-":
			if x.Lit != nil {
				n := new(big.Int).Neg(x.Lit)
				return SpecVal{T: IntLitBig(n), Lit: n}, nil
			}
			if x.T.Sort == SInt {
				return SpecVal{T: App(SInt, "-", x.T)}, nil
			}
			if _, ok := x.T.Sort.IsBV(); ok {
				return SpecVal{T: App(x.T.Sort, "bvneg", x.T), Ty: x.Ty}, nil
			}
		case "^":
			if _, ok := x.T.Sort.IsBV(); ok {
				return SpecVal{T: App(x.T.Sort, "bvnot", x.T), Ty: x.Ty}, nil
			}
		case "*":
			if x.Ty != nil {
				if el := derefNamed(x.Ty); el != nil {
					v, err := vc.loadRaw(env.cur, x.T, el)
					if err != nil {
						return SpecVal{}, err
					}
					return SpecVal{T: v, Ty: el}, nil
				}
			}
			return SpecVal{}, fmt.Errorf("dereference of non-pointer in %s", e.String())
		}
		return SpecVal{}, fmt.Errorf("bad unary %s", e.Op)
	case EBinary:
		return env.binary(e)
	case EField:
		return env.field(e)
	case EIndex:
		return env.index(e)
	case ECall:
		return env.call(e)
	case EQuant:
		return env.quant(e)
	case ESlice:
		x, err := env.Eval(e.Args[0])
		if err != nil {
			return SpecVal{}, err
		}
		sl, ok := U(x.Ty).(*types.Slice)
		if x.Ty == nil || !ok {
			return SpecVal{}, fmt.Errorf("slice expression on non-slice %s", e.Args[0].String())
		}
		lo := IntLit(0)
		hi := SLen(x.T)
		if e.Args[1] != nil {
			v, err := env.Eval(e.Args[1])
			if err != nil {
				return SpecVal{}, err
			}
			lo = vc.toIndex(v.T, v.Ty)
		}
		if e.Args[2] != nil {
			v, err := env.Eval(e.Args[2])
			if err != nil {
				return SpecVal{}, err
			}
			hi = vc.toIndex(v.T, v.Ty)
		}
		k := vc.tt.Slots(sl.Elem())
		return SpecVal{T: MkSlice(ElemAddr(SBase(x.T), lo, k), Sub(hi, lo), Sub(SCap(x.T), lo)), Ty: x.Ty}, nil
	}
	return SpecVal{}, fmt.Errorf("cannot evaluate %s", e.String())
}

func (env *SpecEnv) ident(name string) (SpecVal, error) {
	// a parameter that the loop reassigns: outside old() its name means the current value
	if env.shadow != nil && !env.inOld {
		if pv, isParam := env.shadowable[name]; isParam && env.vars[name].T.S == pv.T.S {
			if v, ok := env.shadow(name); ok {
				return v, nil
			}
		}
	}
	if v, ok := env.vars[name]; ok {
		return v, nil
	}
	if env.lookup != nil {
		if v, ok := env.lookup(name); ok {
			return v, nil
		}
	}
	if gv, ok := env.vc.ctx.ghostVars[env.pkgPath()+"::"+name]; ok {
		t, ty, err := env.vc.ghostVar(env.cur, gv)
		return SpecVal{T: t, Ty: ty}, err
	}
	if env.pkg != nil {
		if obj := env.pkg.Scope().Lookup(name); obj != nil {
			return env.object(obj)
		}
	}
	return SpecVal{}, fmt.Errorf("unresolved identifier %q", name)
}

func (env *SpecEnv) object(obj types.Object) (SpecVal, error) {
	vc := env.vc
	switch o := obj.(type) {
	case *types.Const:
		if o.Val().Kind() == constant.Int {
			bi, _ := new(big.Int).SetString(o.Val().ExactString(), 10)
			if _, ok := U(o.Type()).(*types.Basic); ok && U(o.Type()).(*types.Basic).Info()&types.IsUntyped != 0 {
				return SpecVal{T: IntLitBig(bi), Lit: bi}, nil
			}
			t, err := vc.constTerm(o.Val(), o.Type())
			return SpecVal{T: t, Ty: o.Type(), Lit: bi}, err
		}
		t, err := vc.constTerm(o.Val(), o.Type())
		return SpecVal{T: t, Ty: o.Type()}, err
	case *types.Var:
		if t, ok := vc.sentinel(o); ok {
			return SpecVal{T: t, Ty: o.Type()}, nil
		}
		// package-level variable: load from its global cell
		addr := vc.globalAddr(o)
		st := env.cur
		v, err := vc.loadRaw(st, addr, o.Type())
		if err != nil {
			return SpecVal{}, err
		}
		return SpecVal{T: v, Ty: o.Type()}, nil
	}
	return SpecVal{}, fmt.Errorf("unsupported object %s", obj)
}

func (env *SpecEnv) binary(e *Expr) (SpecVal, error) {
	switch e.Op {
	case "&&", "||", "==>", "<==>":
		a, err := env.EvalBool(e.Args[0])
		if err != nil {
			return SpecVal{}, err
		}
		b, err := env.EvalBool(e.Args[1])
		if err != nil {
			return SpecVal{}, err
		}
		switch e.Op {
		case "&&":
			return SpecVal{T: And(a, b)}, nil
		case "||":
			return SpecVal{T: Or(a, b)}, nil
		case "==>":
			return SpecVal{T: Implies(a, b)}, nil
		default:
			return SpecVal{T: Eq(a, b)}, nil
		}
	}
	a, err := env.Eval(e.Args[0])
	if err != nil {
		return SpecVal{}, err
	}
	b, err := env.Eval(e.Args[1])
	if err != nil {
		return SpecVal{}, err
	}
	if e.Op == "==" || e.Op == "!=" {
		t, err := env.equal(a, b)
		if err != nil {
			return SpecVal{}, fmt.Errorf("%v in %s", err, e.String())
		}
		if e.Op == "!=" {
			t = Not(t)
		}
		return SpecVal{T: t}, nil
	}
	// shifts: the count may have a different width
	if e.Op == "<<" || e.Op == ">>" {
		return env.shift(e.Op, a, b)
	}
	a, b, err = env.unify(a, b)
	if err != nil {
		return SpecVal{}, fmt.Errorf("%v in %s", err, e.String())
	}
	if a.Lit != nil && b.Lit != nil {
		// constant folding
		r := new(big.Int)
		switch e.Op {
		case "+":
			r.Add(a.Lit, b.Lit)
		case "-":
			r.Sub(a.Lit, b.Lit)
		case "*":
			r.Mul(a.Lit, b.Lit)
		case "/":
			if b.Lit.Sign() == 0 {
				return SpecVal{}, fmt.Errorf("division by zero in spec")
			}
			r.Quo(a.Lit, b.Lit)
		case "%":
			if b.Lit.Sign() == 0 {
				return SpecVal{}, fmt.Errorf("division by zero in spec")
			}
			r.Rem(a.Lit, b.Lit)
		case "<":
			return SpecVal{T: BoolLit(a.Lit.Cmp(b.Lit) < 0)}, nil
		case "<=":
			return SpecVal{T: BoolLit(a.Lit.Cmp(b.Lit) <= 0)}, nil
		case ">":
			return SpecVal{T: BoolLit(a.Lit.Cmp(b.Lit) > 0)}, nil
		case ">=":
			return SpecVal{T: BoolLit(a.Lit.Cmp(b.Lit) >= 0)}, nil
		default:
			return SpecVal{}, fmt.Errorf("cannot fold %s", e.Op)
		}
		return SpecVal{T: IntLitBig(r), Lit: r}, nil
	}
	if a.T.Sort == SInt {
		switch e.Op {
		case "+":
			return SpecVal{T: Add(a.T, b.T)}, nil
		case "-":
			return SpecVal{T: Sub(a.T, b.T)}, nil
		case "*":
			return SpecVal{T: Mul(a.T, b.T)}, nil
		case "/":
			// mathematical: truncated like Go on the spec level too
			return SpecVal{T: truncDiv(a.T, b.T)}, nil
		case "%":
			return SpecVal{T: truncRem(a.T, b.T)}, nil
		case "<":
			return SpecVal{T: Lt(a.T, b.T)}, nil
		case "<=":
			return SpecVal{T: Le(a.T, b.T)}, nil
		case ">":
			return SpecVal{T: Gt(a.T, b.T)}, nil
		case ">=":
			return SpecVal{T: Ge(a.T, b.T)}, nil
		}
		return SpecVal{}, fmt.Errorf("operator %s not available on mathematical integers", e.Op)
	}
	if _, ok := a.T.Sort.IsBV(); ok {
		signed := isSignedTy(a.Ty) && a.Ty != nil
		ty := a.Ty
		if ty == nil {
			ty = b.Ty
		}
		bin := func(op string) (SpecVal, error) { return SpecVal{T: bvOp(op, a.T, b.T), Ty: ty}, nil }
		cmp := func(u, s string) (SpecVal, error) {
			if signed {
				return SpecVal{T: App(SBool, s, a.T, b.T)}, nil
			}
			return SpecVal{T: App(SBool, u, a.T, b.T)}, nil
		}
		switch e.Op {
		case "+":
			return bin("bvadd")
		case "-":
			return bin("bvsub")
		case "*":
			return bin("bvmul")
		case "/":
			if signed {
				return bin("bvsdiv")
			}
			return bin("bvudiv")
		case "%":
			if signed {
				return bin("bvsrem")
			}
			return bin("bvurem")
		case "&":
			return bin("bvand")
		case "|":
			return bin("bvor")
		case "^":
			return bin("bvxor")
		case "&^":
			return SpecVal{T: bvOp("bvand", a.T, App(b.T.Sort, "bvnot", b.T)), Ty: ty}, nil
		case "<":
			return cmp("bvult", "bvslt")
		case "<=":
			return cmp("bvule", "bvsle")
		case ">":
			return cmp("bvugt", "bvsgt")
		case ">=":
			return cmp("bvuge", "bvsge")
		}
	}
	return SpecVal{}, fmt.Errorf("operator %s not applicable to sort %s in %s", e.Op, a.T.Sort, e.String())
}

func (env *SpecEnv) shift(op string, a, b SpecVal) (SpecVal, error) {
	if a.Lit != nil && b.Lit != nil && b.Lit.IsInt64() {
		r := new(big.Int)
		if op == "<<" {
			r.Lsh(a.Lit, uint(b.Lit.Int64()))
		} else {
			r.Rsh(a.Lit, uint(b.Lit.Int64()))
		}
		return SpecVal{T: IntLitBig(r), Lit: r}, nil
	}
	if w, ok := a.T.Sort.IsBV(); ok {
		var cnt Term
		if b.Lit != nil {
			cnt = BVLit(b.Lit, w)
			if b.Lit.Cmp(big.NewInt(int64(w))) >= 0 {
				cnt = BVLit(big.NewInt(int64(w)), w)
				if big.NewInt(int64(w)).Cmp(pow2(w)) >= 0 {
					cnt = BVLit(new(big.Int).Sub(pow2(w), big.NewInt(1)), w)
				}
			}
		} else if cw, ok := b.T.Sort.IsBV(); ok {
			switch {
			case cw == w:
				cnt = b.T
			case cw < w:
				cnt = App(SBV(w), fmt.Sprintf("(_ zero_extend %d)", w-cw), b.T)
			default:
				big1 := App(SBool, "bvuge", b.T, BVLit(big.NewInt(int64(w)), cw))
				cnt = Ite(big1, BVLit(big.NewInt(int64(w)), w), App(SBV(w), fmt.Sprintf("(_ extract %d 0)", w-1), b.T))
			}
		} else {
			return SpecVal{}, fmt.Errorf("shift count must be a bit-vector or literal")
		}
		if op == "<<" {
			return SpecVal{T: bvOp("bvshl", a.T, cnt), Ty: a.Ty}, nil
		}
		if a.Ty != nil && isSignedTy(a.Ty) {
			return SpecVal{T: bvOp("bvashr", a.T, cnt), Ty: a.Ty}, nil
		}
		return SpecVal{T: bvOp("bvlshr", a.T, cnt), Ty: a.Ty}, nil
	}
	if a.T.Sort == SInt && b.Lit != nil && b.Lit.IsInt64() {
		p := IntLitBig(pow2(int(b.Lit.Int64())))
		if op == "<<" {
			return SpecVal{T: Mul(a.T, p)}, nil
		}
		return SpecVal{T: App(SInt, "div", a.T, p)}, nil
	}
	return SpecVal{}, fmt.Errorf("unsupported shift in spec")
}

func (env *SpecEnv) equal(a, b SpecVal) (Term, error) {
	isNil := func(v SpecVal) bool {
		if bt, ok := v.Ty.(*types.Basic); ok && bt.Kind() == types.UntypedNil {
			return true
		}
		return false
	}
	if isNil(a) && !isNil(b) {
		a, b = b, a
	}
	if isNil(b) {
		switch a.T.Sort {
		case SRef:
			return Eq(a.T, NullRef), nil
		case SSlice:
			return Eq(Rid(SBase(a.T)), IntLit(0)), nil
		case SIface:
			return Eq(ITag(a.T), IntLit(0)), nil
		}
		return Term{}, fmt.Errorf("comparison of %s with nil", a.T.Sort)
	}
	a, b, err := env.unify(a, b)
	if err != nil {
		return Term{}, err
	}
	if a.T.Sort == SSlice {
		return Eq(a.T, b.T), nil // structural equality of slice headers (spec-only notion)
	}
	return Eq(a.T, b.T), nil
}

func derefNamed(t types.Type) types.Type {
	if p, ok := U(t).(*types.Pointer); ok {
		return p.Elem()
	}
	return nil
}

func (env *SpecEnv) field(e *Expr) (SpecVal, error) {
	vc := env.vc
	// package-qualified identifier: pkg.Name
	if id := e.Args[0]; id.Kind == EIdent {
		if _, isVar := env.vars[id.Name]; !isVar {
			isLocal := false
			if env.lookup != nil {
				_, isLocal = env.lookup(id.Name)
			}
			if !isLocal {
				if gv, ok := vc.ctx.ghostVars[vc.ctx.ghostKey("", id.Name+"."+e.Op)]; ok && gv.Name == e.Op {
					t, ty, err := vc.ghostVar(env.cur, gv)
					return SpecVal{T: t, Ty: ty}, err
				}
			}
			if !isLocal && env.pkg != nil && env.pkg.Scope().Lookup(id.Name) == nil {
				for _, imp := range env.pkg.Imports() {
					if imp.Name() == id.Name {
						if obj := imp.Scope().Lookup(e.Op); obj != nil {
							return env.object(obj)
						}
						return SpecVal{}, fmt.Errorf("%s.%s not found", id.Name, e.Op)
					}
				}
				for _, tp := range vc.ctx.typePkgs {
					if tp.Name() == id.Name {
						if obj := tp.Scope().Lookup(e.Op); obj != nil {
							return env.object(obj)
						}
					}
				}
			}
		}
	}
	// a field of an element of a slice/array of structs: load the field, not the whole element
	if e.Args[0].Kind == EIndex {
		if addr, ty, aerr := env.addrOf(e); aerr == nil {
			if v, lerr := vc.loadRaw(env.cur, addr, ty); lerr == nil {
				return SpecVal{T: v, Ty: ty}, nil
			}
		}
	}
	x, err := env.Eval(e.Args[0])
	if err != nil {
		return SpecVal{}, err
	}
	if x.Ty == nil {
		return SpecVal{}, fmt.Errorf("field %s of untyped value", e.Op)
	}
	obj, path, _ := types.LookupFieldOrMethod(x.Ty, true, env.pkg, e.Op)
	if _, ok := obj.(*types.Var); !ok || len(path) == 0 {
		// unexported field of another package: search by name without package check
		obj, path = lookupFieldAnyPkg(x.Ty, e.Op)
		if obj == nil {
			return SpecVal{}, fmt.Errorf("no field %s in %s", e.Op, x.Ty)
		}
	}
	cur := x
	for _, idx := range path {
		next, err := env.fieldByIndex(cur, idx)
		if err != nil {
			return SpecVal{}, err
		}
		cur = next
	}
	return cur, nil
}

func lookupFieldAnyPkg(t types.Type, name string) (types.Object, []int) {
	if p, ok := U(t).(*types.Pointer); ok {
		t = p.Elem()
	}
	st, ok := U(t).(*types.Struct)
	if !ok {
		return nil, nil
	}
	for i := 0; i < st.NumFields(); i++ {
		if st.Field(i).Name() == name {
			return st.Field(i), []int{i}
		}
	}
	for i := 0; i < st.NumFields(); i++ {
		if st.Field(i).Embedded() {
			if o, p := lookupFieldAnyPkg(st.Field(i).Type(), name); o != nil {
				return o, append([]int{i}, p...)
			}
		}
	}
	return nil, nil
}

func (env *SpecEnv) fieldByIndex(x SpecVal, i int) (SpecVal, error) {
	vc := env.vc
	if el := derefNamed(x.Ty); el != nil {
		st, ok := U(el).(*types.Struct)
		if !ok {
			return SpecVal{}, fmt.Errorf("field of non-struct pointer %s", x.Ty)
		}
		addr := RefAdd(x.T, IntLit(vc.tt.FieldOffset(st, i)))
		v, err := vc.loadRaw(env.cur, addr, st.Field(i).Type())
		if err != nil {
			return SpecVal{}, err
		}
		return SpecVal{T: v, Ty: st.Field(i).Type()}, nil
	}
	if st, ok := U(x.Ty).(*types.Struct); ok {
		srt, err := vc.tt.SortOf(x.Ty)
		if err != nil {
			return SpecVal{}, err
		}
		fs, err := vc.tt.SortOf(st.Field(i).Type())
		if err != nil {
			return SpecVal{}, err
		}
		return SpecVal{T: App(fs, structFieldAccessor(srt, i), x.T), Ty: st.Field(i).Type()}, nil
	}
	return SpecVal{}, fmt.Errorf("field of %s", x.Ty)
}

// addrOf evaluates an lvalue expression to (address, type).
func (env *SpecEnv) addrOf(e *Expr) (Term, types.Type, error) {
	vc := env.vc
	// address of a package-level variable: &name or &pkg.Name
	globalVar := func(obj types.Object) (Term, types.Type, bool) {
		if v, ok := obj.(*types.Var); ok && v.Pkg() != nil && v.Parent() == v.Pkg().Scope() {
			return vc.globalAddr(v), v.Type(), true
		}
		return Term{}, nil, false
	}
	if e.Kind == EIdent && env.lookupAddr != nil {
		if _, isVar := env.vars[e.Name]; !isVar {
			if a, t, ok := env.lookupAddr(e.Name); ok {
				return a, t, nil
			}
		}
	}
	if e.Kind == EIdent && env.pkg != nil {
		if _, isVar := env.vars[e.Name]; !isVar {
			if obj := env.pkg.Scope().Lookup(e.Name); obj != nil {
				if a, t, ok := globalVar(obj); ok {
					return a, t, nil
				}
			}
		}
	}
	if e.Kind == EField && e.Args[0].Kind == EIdent && env.pkg != nil {
		if _, isVar := env.vars[e.Args[0].Name]; !isVar && env.pkg.Scope().Lookup(e.Args[0].Name) == nil {
			for _, imp := range env.pkg.Imports() {
				if imp.Name() == e.Args[0].Name {
					if obj := imp.Scope().Lookup(e.Op); obj != nil {
						if a, t, ok := globalVar(obj); ok {
							return a, t, nil
						}
					}
				}
			}
		}
	}
	switch e.Kind {
	case EField:
		x, err := env.Eval(e.Args[0])
		var base Term
		var el types.Type
		if err == nil && x.Ty != nil && derefNamed(x.Ty) != nil {
			base, el = x.T, derefNamed(x.Ty)
		} else {
			b, t, err2 := env.addrOf(e.Args[0])
			if err2 != nil {
				if err != nil {
					return Term{}, nil, err
				}
				return Term{}, nil, err2
			}
			base, el = b, t
		}
		st, ok := U(el).(*types.Struct)
		if !ok {
			return Term{}, nil, fmt.Errorf("field %s of non-struct", e.Op)
		}
		for i := 0; i < st.NumFields(); i++ {
			if st.Field(i).Name() == e.Op {
				return RefAdd(base, IntLit(vc.tt.FieldOffset(st, i))), st.Field(i).Type(), nil
			}
		}
		// a promoted field: walk through the embedded structs (an embedded pointer is loaded)
		if obj, path := lookupFieldAnyPkg(el, e.Op); obj != nil && len(path) > 1 {
			curBase, curSt := base, st
			for k, idx := range path {
				fa := RefAdd(curBase, IntLit(vc.tt.FieldOffset(curSt, idx)))
				ft := curSt.Field(idx).Type()
				if k == len(path)-1 {
					return fa, ft, nil
				}
				if pt, ok := U(ft).(*types.Pointer); ok {
					v, lerr := vc.loadRaw(env.cur, fa, ft)
					if lerr != nil {
						return Term{}, nil, lerr
					}
					fa, ft = v, pt.Elem()
				}
				nst, ok := U(ft).(*types.Struct)
				if !ok {
					return Term{}, nil, fmt.Errorf("promoted field %s through a non-struct", e.Op)
				}
				curBase, curSt = fa, nst
			}
		}
		return Term{}, nil, fmt.Errorf("no field %s", e.Op)
	case EIndex:
		i, err := env.Eval(e.Args[1])
		if err != nil {
			return Term{}, nil, err
		}
		idx := vc.toIndex(i.T, i.Ty)
		x, err := env.Eval(e.Args[0])
		if err == nil && x.Ty != nil {
			if sl, ok := U(x.Ty).(*types.Slice); ok {
				k := vc.tt.Slots(sl.Elem())
				return ElemAddr(SBase(x.T), idx, k), sl.Elem(), nil
			}
			if el := derefNamed(x.Ty); el != nil {
				if arr, ok := U(el).(*types.Array); ok {
					k := vc.tt.Slots(arr.Elem())
					return ElemAddr(RefAdd(x.T, IntLit(1)), idx, k), arr.Elem(), nil
				}
			}
		}
		b, t, err2 := env.addrOf(e.Args[0])
		if err2 != nil {
			return Term{}, nil, err2
		}
		if arr, ok := U(t).(*types.Array); ok {
			k := vc.tt.Slots(arr.Elem())
			return ElemAddr(RefAdd(b, IntLit(1)), idx, k), arr.Elem(), nil
		}
		return Term{}, nil, fmt.Errorf("cannot take address of index expression %s", e.String())
	case EUnary:
		if e.Op == "*" {
			x, err := env.Eval(e.Args[0])
			if err != nil {
				return Term{}, nil, err
			}
			if el := derefNamed(x.Ty); el != nil {
				return x.T, el, nil
			}
		}
	case ECall:
		if e.Args[0].Kind == EIdent && e.Args[0].Name == "deref" && len(e.Args) == 2 {
			x, err := env.Eval(e.Args[1])
			if err != nil {
				return Term{}, nil, err
			}
			if el := derefNamed(x.Ty); el != nil {
				return x.T, el, nil
			}
		}
	}
	return Term{}, nil, fmt.Errorf("not an lvalue: %s", e.String())
}

func (env *SpecEnv) index(e *Expr) (SpecVal, error) {
	vc := env.vc
	x, err := env.Eval(e.Args[0])
	if err != nil {
		return SpecVal{}, err
	}
	i, err := env.Eval(e.Args[1])
	if err != nil {
		return SpecVal{}, err
	}
	if x.Ty == nil {
		if strings.HasPrefix(string(x.T.Sort), "(Array ") {
			ks := arrayKeySort(x.T.Sort)
			it := i.T
			if i.Lit != nil {
				it = env.litTerm(i.Lit, ks)
			}
			return SpecVal{T: Select(x.T, it)}, nil
		}
		return SpecVal{}, fmt.Errorf("index of untyped value")
	}
	switch u := U(x.Ty).(type) {
	case *types.Slice:
		k := vc.tt.Slots(u.Elem())
		addr := ElemAddr(SBase(x.T), vc.toIndex(i.T, i.Ty), k)
		v, err := vc.loadRaw(env.cur, addr, u.Elem())
		if err != nil {
			return SpecVal{}, err
		}
		return SpecVal{T: v, Ty: u.Elem()}, nil
	case *types.Array:
		return SpecVal{T: Select(x.T, vc.toIndex(i.T, i.Ty)), Ty: u.Elem()}, nil
	case *types.Pointer:
		if arr, ok := U(u.Elem()).(*types.Array); ok {
			k := vc.tt.Slots(arr.Elem())
			addr := ElemAddr(RefAdd(x.T, IntLit(1)), vc.toIndex(i.T, i.Ty), k)
			v, err := vc.loadRaw(env.cur, addr, arr.Elem())
			if err != nil {
				return SpecVal{}, err
			}
			return SpecVal{T: v, Ty: arr.Elem()}, nil
		}
	case *types.Map:
		ks, err := vc.tt.SortOf(u.Key())
		if err != nil {
			return SpecVal{}, err
		}
		vs, err := vc.tt.SortOf(u.Elem())
		if err != nil {
			return SpecVal{}, err
		}
		kt := i.T
		if i.Lit != nil {
			kt = env.litTerm(i.Lit, ks)
		}
		// Go semantics: a missing key (or a nil map) reads as the zero value
		val := Select(Select(vc.mapHeap(env.cur, "val", ks, vs), Rid(x.T)), kt)
		if z, err := vc.zeroValue(u.Elem()); err == nil {
			present := And(Neq(Rid(x.T), IntLit(0)), Select(Select(vc.mapHeap(env.cur, "dom", ks, vs), Rid(x.T)), kt))
			val = Ite(present, val, z)
		}
		return SpecVal{T: val, Ty: u.Elem()}, nil
	}
	return SpecVal{}, fmt.Errorf("cannot index %s", x.Ty)
}

func (env *SpecEnv) quant(e *Expr) (SpecVal, error) {
	vc := env.vc
	sub := env.child()
	var binders []string
	var ranges []Term
	for _, qv := range e.Vars {
		var bvw int
		if n, _ := fmt.Sscanf(qv.Type, "bv%d", &bvw); n == 1 && bvw > 0 && qv.Type == fmt.Sprintf("bv%d", bvw) {
			// a bit-vector value (not a Go type)
			name := "q!" + sanitize(qv.Name) + fmt.Sprintf("!%d", vc.ordinal("qv"))
			t := Term{name, SBV(bvw)}
			binders = append(binders, fmt.Sprintf("(%s %s)", name, SBV(bvw)))
			sub.vars[qv.Name] = SpecVal{T: t}
			continue
		}
		ty, err := env.resolveTypeName(qv.Type)
		if err != nil {
			return SpecVal{}, err
		}
		name := "q!" + sanitize(qv.Name) + fmt.Sprintf("!%d", vc.ordinal("qv"))
		var srt Sort = SInt
		if ty != nil {
			srt, err = vc.tt.SortOf(ty)
			if err != nil {
				return SpecVal{}, err
			}
		}
		t := Term{name, srt}
		binders = append(binders, fmt.Sprintf("(%s %s)", name, srt))
		sub.vars[qv.Name] = SpecVal{T: t, Ty: ty}
		if ty != nil {
			// quantified Go-typed values range over the type; references are not constrained
			if _, _, ok := isIntType(ty); ok {
				ranges = append(ranges, vc.rangeAssumption(t, ty, IntLit(0)))
			}
		}
	}
	body, err := sub.EvalBool(e.Args[0])
	if err != nil {
		return SpecVal{}, err
	}
	env.assumes = append(env.assumes, sub.assumes...)
	if e.Op == "forall" {
		return SpecVal{T: Term{fmt.Sprintf("(forall (%s) %s)", strings.Join(binders, " "), Implies(And(ranges...), body).S), SBool}}, nil
	}
	return SpecVal{T: Term{fmt.Sprintf("(exists (%s) %s)", strings.Join(binders, " "), And(And(ranges...), body).S), SBool}}, nil
}

func (env *SpecEnv) call(e *Expr) (SpecVal, error) {
	vc := env.vc
	fnE := e.Args[0]
	args := e.Args[1:]
	if fnE.Kind == EField && fnE.Args[0].Kind == EIdent {
		// pkg.ghostFunc(...) / pkg.pureFunc(...): a spec function declared in another package's contract file
		if _, isVar := env.vars[fnE.Args[0].Name]; !isVar {
			for _, p := range vc.ctx.typePkgs {
				if p.Name() != fnE.Args[0].Name {
					continue
				}
				if gf, ok := vc.ctx.ghosts[p.Path()+"."+fnE.Op]; ok {
					return env.callGhost(gf, args)
				}
				if pf, ok := vc.ctx.pures[p.Path()+"."+fnE.Op]; ok {
					return env.callPure(pf, args)
				}
			}
		}
	}
	if fnE.Kind == EField {
		// method call on a value of type-parameter type: the same pure function the code uses
		recv, err := env.Eval(fnE.Args[0])
		if err != nil {
			return SpecVal{}, err
		}
		if recv.Ty != nil {
			if tp, ok := types.Unalias(recv.Ty).(*types.TypeParam); ok {
				if it, ok := U(tp.Constraint()).(*types.Interface); ok {
					for i := 0; i < it.NumMethods(); i++ {
						m := it.Method(i)
						if m.Name() != fnE.Op {
							continue
						}
						sig := m.Type().(*types.Signature)
						if sig.Results().Len() != 1 {
							break
						}
						rt := sig.Results().At(0).Type()
						rs, err := vc.tt.SortOf(rt)
						if err != nil {
							return SpecVal{}, err
						}
						sorts := []Sort{recv.T.Sort}
						all := []Term{recv.T}
						for _, a := range args {
							v, err := env.Eval(a)
							if err != nil {
								return SpecVal{}, err
							}
							sorts = append(sorts, v.T.Sort)
							all = append(all, v.T)
						}
						name := "tpm!" + sanitize(tp.Obj().Name()+"."+fnE.Op)
						vc.DeclareFun(name, sorts, rs)
						return SpecVal{T: App(rs, name, all...), Ty: rt}, nil
					}
				}
			}
		}
		return SpecVal{}, fmt.Errorf("unsupported method call %s in a specification", e.String())
	}
	if fnE.Kind != EIdent {
		return SpecVal{}, fmt.Errorf("unsupported call target %s", fnE.String())
	}
	name := fnE.Name
	evalArgs := func() ([]SpecVal, error) {
		var out []SpecVal
		for _, a := range args {
			v, err := env.Eval(a)
			if err != nil {
				return nil, err
			}
			out = append(out, v)
		}
		return out, nil
	}
	switch name {
	case "old":
		if len(args) != 1 {
			return SpecVal{}, fmt.Errorf("old takes one argument")
		}
		sub := *env
		sub.cur = env.old
		sub.inOld = true
		v, err := sub.Eval(args[0])
		env.assumes = append(env.assumes, sub.assumes...)
		return v, err
	case "deferred":
		// deferred(F): on this path a `defer` of a call to F (function or method name) has been
		// registered by the function under contract - it will run when the function returns AND
		// when it panics, which is what makes a release panic-safe
		if len(args) != 1 || args[0].Kind != EIdent {
			return SpecVal{}, fmt.Errorf("deferred takes a function name")
		}
		if env.vc.rootFr == nil {
			return SpecVal{}, fmt.Errorf("deferred(F): no function in scope")
		}
		rf := env.vc.rootFr
		var flags []Term
		for _, d := range rf.allDefers() {
			name := ""
			if c := d.Common(); c.IsInvoke() {
				name = c.Method.Name()
			} else if f, ok := c.Value.(*ssa.Function); ok {
				name = f.Name()
			}
			if name != args[0].Name {
				continue
			}
			if flag, ok := env.cur.ghost[rf.deferKey(d)]; ok {
				flags = append(flags, flag)
			}
		}
		if len(flags) == 0 {
			return SpecVal{T: False}, nil
		}
		return SpecVal{T: Or(flags...)}, nil
	case "atentry":
		// atentry(e): e (ghost variables, memory, values defined before the loop) as it was when
		// the loop being annotated was entered - for a nested loop: entered this time
		if len(args) != 1 {
			return SpecVal{}, fmt.Errorf("atentry takes one argument")
		}
		if env.loopPre == nil {
			return SpecVal{}, fmt.Errorf("atentry(e) is only meaningful in a loop invariant")
		}
		sub := *env
		sub.cur = env.loopPre
		v, err := sub.Eval(args[0])
		env.assumes = append(env.assumes, sub.assumes...)
		return v, err
	case "visited":
		// visited(k): k has been produced by the (unique) map range in scope
		if len(args) == 2 && args[0].Kind == EInt && env.rangeOf != nil {
			// visited(n, k): the map range driving loop n of the function
			ord := int(args[0].Val.Int64())
			key, ok := env.rangeOf(ord)
			g, ok2 := env.cur.ghost[key]
			if !ok || !ok2 {
				return SpecVal{}, fmt.Errorf("visited(%d, k): loop %d is not a map range in scope", ord, ord)
			}
			kv, err := env.Eval(args[1])
			if err != nil {
				return SpecVal{}, err
			}
			kt := kv.T
			if kv.Lit != nil {
				kt = env.litTerm(kv.Lit, arrayKeySort(g.Sort))
			}
			return SpecVal{T: Select(g, kt)}, nil
		}
		as, err := evalArgs()
		if err == nil && len(as) == 1 && env.rangeOf != nil {
			if key, ok := env.rangeOf(0); ok {
				if g, ok := env.cur.ghost[key]; ok {
					kt := as[0].T
					if as[0].Lit != nil {
						kt = env.litTerm(as[0].Lit, arrayKeySort(g.Sort))
					}
					return SpecVal{T: Select(g, kt)}, nil
				}
			}
		}
		if err != nil || len(as) != 1 {
			return SpecVal{}, fmt.Errorf("visited(k): %v", err)
		}
		var found []Term
		for k, g := range env.cur.ghost {
			if strings.HasPrefix(k, "visited!") {
				found = append(found, g)
			}
		}
		if len(found) != 1 {
			return SpecVal{}, fmt.Errorf("visited(): %d map ranges in scope", len(found))
		}
		kt := as[0].T
		if as[0].Lit != nil {
			kt = env.litTerm(as[0].Lit, arrayKeySort(found[0].Sort))
		}
		return SpecVal{T: Select(found[0], kt)}, nil
	case "yieldcount":
		as, err := evalArgs()
		if err != nil || len(as) != 1 || as[0].T.Sort != SFunc {
			return SpecVal{}, fmt.Errorf("yieldcount(iterator): %v", err)
		}
		vc.DeclareFun("yieldcount", []Sort{SFunc}, SInt)
		return SpecVal{T: App(SInt, "yieldcount", as[0].T)}, nil
	case "yielded", "yielded2":
		// yielded(it, j): the j-th element the iterator yields (first component for Seq2)
		as, err := evalArgs()
		if err != nil || len(as) != 2 || as[0].T.Sort != SFunc {
			return SpecVal{}, fmt.Errorf("%s(iterator, j): %v", name, err)
		}
		sig, ok := U(as[0].Ty).(*types.Signature)
		if !ok || sig.Params().Len() != 1 {
			return SpecVal{}, fmt.Errorf("%s: not an iterator", name)
		}
		ysig, ok := U(sig.Params().At(0).Type()).(*types.Signature)
		idx := 0
		if name == "yielded2" {
			idx = 1
		}
		if !ok || ysig.Params().Len() <= idx {
			return SpecVal{}, fmt.Errorf("%s: not an iterator", name)
		}
		et := ysig.Params().At(idx).Type()
		srt, err := vc.tt.SortOf(et)
		if err != nil {
			return SpecVal{}, err
		}
		fn := fmt.Sprintf("yielded%d!%s", idx, sanitize(string(srt)))
		vc.DeclareFun(fn, []Sort{SFunc, SInt}, srt)
		return SpecVal{T: App(srt, fn, as[0].T, vc.toIndex(as[1].T, as[1].Ty)), Ty: et}, nil
	case "istype", "cast":
		// istype(x, T): the dynamic type of interface value x is T; cast(x, T): its value as T
		if len(args) != 2 {
			return SpecVal{}, fmt.Errorf("%s(x, T)", name)
		}
		x, err := env.Eval(args[0])
		if err != nil {
			return SpecVal{}, err
		}
		if x.T.Sort != SIface {
			return SpecVal{}, fmt.Errorf("%s: not an interface value", name)
		}
		tn, ok := exprTypeName(args[1])
		if !ok {
			return SpecVal{}, fmt.Errorf("%s: second argument must be a type", name)
		}
		ty, err := env.resolveTypeName(tn)
		if err != nil {
			return SpecVal{}, err
		}
		if name == "istype" {
			return SpecVal{T: Eq(ITag(x.T), IntLit(int64(vc.tt.TID(ty))))}, nil
		}
		if _, isPtr := U(ty).(*types.Pointer); isPtr {
			return SpecVal{T: IRefOf(x.T), Ty: ty}, nil
		}
		v, err := vc.loadRaw(env.cur, IRefOf(x.T), ty)
		if err != nil {
			return SpecVal{}, err
		}
		return SpecVal{T: v, Ty: ty}, nil
	case "calls", "ret":
		// calls(fn): how often the callback parameter fn has been called; ret(fn): its last result
		if len(args) != 1 || args[0].Kind != EIdent {
			return SpecVal{}, fmt.Errorf("%s(<callback parameter>)", name)
		}
		pn := args[0].Name
		if name == "calls" {
			if t, ok := env.cur.ghost["fncalls!"+pn]; ok {
				return SpecVal{T: t}, nil
			}
			return SpecVal{T: vc.fnCallsInit(pn)}, nil
		}
		if t, ok := env.cur.ghost["fnret!"+pn]; ok {
			pv, err := env.ident(pn)
			var rty types.Type
			if err == nil && pv.Ty != nil {
				if sig, ok := U(pv.Ty).(*types.Signature); ok && sig.Results().Len() == 1 {
					rty = sig.Results().At(0).Type()
				}
			}
			return SpecVal{T: t, Ty: rty}, nil
		}
		// not called on this path: an arbitrary (but fixed) value of the result type
		if pv, err := env.ident(pn); err == nil && pv.Ty != nil {
			if sig, ok := U(pv.Ty).(*types.Signature); ok && sig.Results().Len() == 1 {
				rty := sig.Results().At(0).Type()
				if srt, err := vc.tt.SortOf(rty); err == nil {
					n := "fnret0!" + sanitize(pn)
					vc.DeclareFun(n, nil, srt)
					return SpecVal{T: Term{n, srt}, Ty: rty}, nil
				}
			}
		}
		return SpecVal{}, fmt.Errorf("ret(%s): the callback has not been called on this path", pn)
	case "string":
		as, err := evalArgs()
		if err != nil || len(as) != 1 || as[0].T.Sort != SSlice {
			return SpecVal{}, fmt.Errorf("string(b): %v", err)
		}
		vc.DeclareFun("bytesstr", []Sort{SSlice}, SStr)
		return SpecVal{T: App(SStr, "bytesstr", as[0].T), Ty: types.Typ[types.String]}, nil
	case "strlt":
		as, err := evalArgs()
		if err != nil || len(as) != 2 || as[0].T.Sort != SStr || as[1].T.Sort != SStr {
			return SpecVal{}, fmt.Errorf("strlt(a, b): %v", err)
		}
		vc.DeclareFun("strlt", []Sort{SStr, SStr}, SBool)
		return SpecVal{T: App(SBool, "strlt", as[0].T, as[1].T)}, nil
	case "strbytes":
		as, err := evalArgs()
		if err != nil || len(as) != 1 || as[0].T.Sort != SStr {
			return SpecVal{}, fmt.Errorf("strbytes(s): %v", err)
		}
		vc.DeclareFun("strbytes", []Sort{SStr}, SSlice)
		return SpecVal{T: App(SSlice, "strbytes", as[0].T), Ty: types.NewSlice(types.Typ[types.Byte])}, nil
	case "received":
		// received(ch): number of values received from channel ch so far (ghost)
		as, err := evalArgs()
		if err != nil || len(as) != 1 || as[0].T.Sort != SRef {
			return SpecVal{}, fmt.Errorf("received(ch): %v", err)
		}
		cht, ok := U(as[0].Ty).(*types.Chan)
		if !ok {
			return SpecVal{}, fmt.Errorf("received(): not a channel")
		}
		return SpecVal{T: Select(vc.recvCounts(env.cur, cht.Elem()), Rid(as[0].T))}, nil
	case "cbapp":
		// cbapp(f, x, y, ...): the value a pure callback f returns for these argument values
		// (pointer arguments are given dereferenced)
		as, err := evalArgs()
		if err != nil || len(as) < 1 || as[0].T.Sort != SFunc {
			return SpecVal{}, fmt.Errorf("cbapp(f, args...): %v", err)
		}
		sig, ok := U(as[0].Ty).(*types.Signature)
		if !ok || sig.Results().Len() != 1 {
			return SpecVal{}, fmt.Errorf("cbapp: %s is not a function with one result", args[0])
		}
		rty := sig.Results().At(0).Type()
		rs, err := vc.tt.SortOf(rty)
		if err != nil {
			return SpecVal{}, err
		}
		all := make([]Term, len(as))
		for i, a := range as {
			all[i] = a.T
		}
		return SpecVal{T: vc.cbApp(all, rs), Ty: rty}, nil
	case "setin", "setadd":
		// ghost sets (ghost var s set[T]): membership and insertion
		as, err := evalArgs()
		if err != nil || len(as) != 2 || !strings.HasPrefix(string(as[0].T.Sort), "(Array ") {
			return SpecVal{}, fmt.Errorf("%s(set, x): %v", name, err)
		}
		x := as[1].T
		if as[1].Lit != nil {
			x = env.litTerm(as[1].Lit, arrayKeySort(as[0].T.Sort))
		}
		if name == "setin" {
			return SpecVal{T: Select(as[0].T, x)}, nil
		}
		return SpecVal{T: Store(as[0].T, x, True)}, nil
	case "bytes":
		// bytes(s): []byte(s), the same function of the string value that the code's conversion is
		as, err := evalArgs()
		if err != nil || len(as) != 1 || as[0].T.Sort != SStr {
			return SpecVal{}, fmt.Errorf("bytes(s): %v", err)
		}
		return SpecVal{T: vc.strBytes(env.cur, as[0].T), Ty: types.NewSlice(types.Typ[types.Byte])}, nil
	case "zero":
		// zero(T): the zero value of type T
		if len(args) != 1 {
			return SpecVal{}, fmt.Errorf("zero(T)")
		}
		tn, ok := exprTypeName(args[0])
		if !ok {
			return SpecVal{}, fmt.Errorf("zero: argument must be a type")
		}
		ty, err := env.resolveTypeName(tn)
		if err != nil {
			return SpecVal{}, err
		}
		z, err := vc.zeroValue(ty)
		if err != nil {
			return SpecVal{}, err
		}
		return SpecVal{T: z, Ty: ty}, nil
	case "effectfree":
		// effectfree(f): declaration only (picked up syntactically when a contract is applied)
		return SpecVal{T: True}, nil
	case "preexisting":
		// preexisting(p): p points into an object that existed when the function under
		// verification was entered (what is reachable from its inputs)
		as, err := evalArgs()
		if err != nil || len(as) != 1 || !vc.entryAlloc.Valid() {
			return SpecVal{}, fmt.Errorf("preexisting(x): %v", err)
		}
		switch as[0].T.Sort {
		case SRef:
			return SpecVal{T: Lt(Rid(as[0].T), vc.entryAlloc)}, nil
		case SSlice:
			return SpecVal{T: Lt(Rid(SBase(as[0].T)), vc.entryAlloc)}, nil
		}
		return SpecVal{}, fmt.Errorf("preexisting() of %s", as[0].T.Sort)
	case "allocated":
		// allocated(p): p points into an object that exists now (what Go guarantees of every
		// pointer a program holds; an invariant has to carry it through a havoc)
		as, err := evalArgs()
		if err != nil || len(as) != 1 {
			return SpecVal{}, fmt.Errorf("allocated(x): %v", err)
		}
		switch as[0].T.Sort {
		case SRef:
			return SpecVal{T: Lt(Rid(as[0].T), env.cur.alloc)}, nil
		case SSlice:
			return SpecVal{T: Lt(Rid(SBase(as[0].T)), env.cur.alloc)}, nil
		}
		return SpecVal{}, fmt.Errorf("allocated() of %s", as[0].T.Sort)
	case "fresh":
		as, err := evalArgs()
		if err != nil || len(as) != 1 {
			return SpecVal{}, fmt.Errorf("fresh(x): %v", err)
		}
		switch as[0].T.Sort {
		case SRef:
			return SpecVal{T: Ge(Rid(as[0].T), env.old.alloc)}, nil
		case SSlice:
			return SpecVal{T: Ge(Rid(SBase(as[0].T)), env.old.alloc)}, nil
		}
		return SpecVal{}, fmt.Errorf("fresh() of %s", as[0].T.Sort)
	case "len", "cap":
		as, err := evalArgs()
		if err != nil || len(as) != 1 {
			return SpecVal{}, fmt.Errorf("len/cap: %v", err)
		}
		x := as[0]
		if x.Ty == nil {
			return SpecVal{}, fmt.Errorf("len of untyped value")
		}
		var r Term
		switch u := U(x.Ty).(type) {
		case *types.Slice:
			if name == "len" {
				r = SLen(x.T)
			} else {
				r = SCap(x.T)
			}
		case *types.Array:
			r = IntLit(u.Len())
		case *types.Basic:
			r = App(SInt, "strlen", x.T)
		case *types.Map:
			r = Ite(Eq(Rid(x.T), IntLit(0)), IntLit(0), Select(vc.mapHeap(env.cur, "len", "", ""), Rid(x.T)))
		case *types.Pointer:
			if arr, ok := U(u.Elem()).(*types.Array); ok {
				r = IntLit(arr.Len())
			}
		}
		if !r.Valid() {
			return SpecVal{}, fmt.Errorf("len of %s", x.Ty)
		}
		if vc.mode == ModeBV {
			// lengths are exposed as mathematical integers in specs; wrap with int(...)-style conversion on demand
			return SpecVal{T: r}, nil
		}
		return SpecVal{T: r}, nil
	case "ite":
		if len(args) != 3 {
			return SpecVal{}, fmt.Errorf("ite takes three arguments")
		}
		c, err := env.EvalBool(args[0])
		if err != nil {
			return SpecVal{}, err
		}
		a, err := env.Eval(args[1])
		if err != nil {
			return SpecVal{}, err
		}
		b, err := env.Eval(args[2])
		if err != nil {
			return SpecVal{}, err
		}
		a, b, err = env.unify(a, b)
		if err != nil {
			return SpecVal{}, err
		}
		ty := a.Ty
		if ty == nil {
			ty = b.Ty
		}
		return SpecVal{T: Ite(c, a.T, b.T), Ty: ty}, nil
	case "in":
		as, err := evalArgs()
		if err != nil || len(as) != 2 {
			return SpecVal{}, fmt.Errorf("in(m,k): %v", err)
		}
		m, ok := U(as[0].Ty).(*types.Map)
		if !ok {
			return SpecVal{}, fmt.Errorf("in: first argument must be a map")
		}
		ks, _ := vc.tt.SortOf(m.Key())
		vs, _ := vc.tt.SortOf(m.Elem())
		kt := as[1].T
		if as[1].Lit != nil {
			kt = env.litTerm(as[1].Lit, ks)
		}
		return SpecVal{T: And(Neq(Rid(as[0].T), IntLit(0)), Select(Select(vc.mapHeap(env.cur, "dom", ks, vs), Rid(as[0].T)), kt))}, nil
	case "min", "max":
		as, err := evalArgs()
		if err != nil || len(as) != 2 {
			return SpecVal{}, fmt.Errorf("min/max: %v", err)
		}
		a, b, err := env.unify(as[0], as[1])
		if err != nil {
			return SpecVal{}, err
		}
		if _, isBV := a.T.Sort.IsBV(); isBV {
			ty := a.Ty
			if ty == nil {
				ty = b.Ty
			}
			le := "bvule"
			if ty != nil && isSignedTy(ty) {
				le = "bvsle"
			}
			c := App(SBool, le, a.T, b.T)
			if name == "min" {
				return SpecVal{T: Ite(c, a.T, b.T), Ty: ty}, nil
			}
			return SpecVal{T: Ite(c, b.T, a.T), Ty: ty}, nil
		}
		if a.T.Sort != SInt {
			return SpecVal{}, fmt.Errorf("min/max only on integers")
		}
		if name == "min" {
			return SpecVal{T: Ite(Le(a.T, b.T), a.T, b.T)}, nil
		}
		return SpecVal{T: Ite(Ge(a.T, b.T), a.T, b.T)}, nil
	case "int", "mathint":
		// mathematical value of a Go integer (bv -> Int)
		as, err := evalArgs()
		if err != nil || len(as) != 1 {
			return SpecVal{}, fmt.Errorf("int(): %v", err)
		}
		return SpecVal{T: vc.toIndex(as[0].T, as[0].Ty)}, nil
	case "zext", "sext":
		if len(args) != 2 {
			return SpecVal{}, fmt.Errorf("%s(x, width)", name)
		}
		x, err := env.Eval(args[0])
		if err != nil {
			return SpecVal{}, err
		}
		wv, err := env.Eval(args[1])
		if err != nil || wv.Lit == nil {
			return SpecVal{}, fmt.Errorf("%s: width must be a literal", name)
		}
		w, ok := x.T.Sort.IsBV()
		if !ok {
			return SpecVal{}, fmt.Errorf("%s of non-bit-vector", name)
		}
		tw := int(wv.Lit.Int64())
		if tw < w {
			return SpecVal{}, fmt.Errorf("%s to a smaller width", name)
		}
		if tw == w {
			return SpecVal{T: x.T}, nil
		}
		op := "zero_extend"
		if name == "sext" {
			op = "sign_extend"
		}
		return SpecVal{T: App(SBV(tw), fmt.Sprintf("(_ %s %d)", op, tw-w), x.T)}, nil
	case "extract":
		if len(args) != 3 {
			return SpecVal{}, fmt.Errorf("extract(x, hi, lo)")
		}
		x, err := env.Eval(args[0])
		if err != nil {
			return SpecVal{}, err
		}
		hi, err1 := env.Eval(args[1])
		lo, err2 := env.Eval(args[2])
		if err1 != nil || err2 != nil || hi.Lit == nil || lo.Lit == nil {
			return SpecVal{}, fmt.Errorf("extract: bounds must be literals")
		}
		h, l := int(hi.Lit.Int64()), int(lo.Lit.Int64())
		return SpecVal{T: App(SBV(h-l+1), fmt.Sprintf("(_ extract %d %d)", h, l), x.T)}, nil
	case "concat":
		as, err := evalArgs()
		if err != nil || len(as) < 2 {
			return SpecVal{}, fmt.Errorf("concat: %v", err)
		}
		t := as[0].T
		for _, a := range as[1:] {
			w1, ok1 := t.Sort.IsBV()
			w2, ok2 := a.T.Sort.IsBV()
			if !ok1 || !ok2 {
				return SpecVal{}, fmt.Errorf("concat of non-bit-vectors")
			}
			t = App(SBV(w1+w2), "concat", t, a.T)
		}
		return SpecVal{T: t}, nil
	case "bv":
		// bv(literal, width)
		if len(args) != 2 {
			return SpecVal{}, fmt.Errorf("bv(value, width)")
		}
		v, err1 := env.Eval(args[0])
		w, err2 := env.Eval(args[1])
		if err1 != nil || err2 != nil || v.Lit == nil || w.Lit == nil {
			return SpecVal{}, fmt.Errorf("bv: literal arguments required")
		}
		return SpecVal{T: BVLit(v.Lit, int(w.Lit.Int64()))}, nil
	case "uint8", "uint16", "uint32", "uint64", "int8", "int16", "int32", "int64", "uint":
		as, err := evalArgs()
		if err != nil || len(as) != 1 {
			return SpecVal{}, fmt.Errorf("%s(): %v", name, err)
		}
		to := types.Universe.Lookup(name).Type()
		x := as[0]
		if x.Lit != nil {
			t, err := vc.constTerm(constant.MakeFromLiteral(x.Lit.String(), token.INT, 0), to)
			return SpecVal{T: t, Ty: to, Lit: x.Lit}, err
		}
		if x.Ty == nil {
			if x.T.Sort == SInt && vc.mode == ModeInt {
				w, s, _ := isIntType(to)
				return SpecVal{T: vc.wrap(x.T, w, s), Ty: to}, nil
			}
			// bit-vector of unknown Go type: resize by zero extension / truncation
			if w, ok := x.T.Sort.IsBV(); ok {
				tw, _, _ := isIntType(to)
				switch {
				case tw == w:
					return SpecVal{T: x.T, Ty: to}, nil
				case tw > w:
					return SpecVal{T: App(SBV(tw), fmt.Sprintf("(_ zero_extend %d)", tw-w), x.T), Ty: to}, nil
				default:
					return SpecVal{T: App(SBV(tw), fmt.Sprintf("(_ extract %d 0)", tw-1), x.T), Ty: to}, nil
				}
			}
			return SpecVal{}, fmt.Errorf("cannot convert untyped %s", x.T.Sort)
		}
		t, err := vc.convertInt(x.T, x.Ty, to)
		return SpecVal{T: t, Ty: to}, err
	}
	// pure spec function
	if pf, ok := vc.ctx.pures[env.pkgPath()+"."+name]; ok {
		return env.callPure(pf, args)
	}
	if gf, ok := vc.ctx.ghosts[env.pkgPath()+"."+name]; ok {
		return env.callGhost(gf, args)
	}
	// contracted Go function used as a spec function (lemmas)
	if env.pkg != nil {
		if fc := vc.ctx.contracts[env.pkg.Path()+"."+name]; fc != nil {
			return env.callContracted(fc, name, args)
		}
	}
	return SpecVal{}, fmt.Errorf("unknown spec function %q", name)
}

// exprTypeName prints a spec expression that denotes a type (*pkg.Name, []T, Name).
func exprTypeName(e *Expr) (string, bool) {
	switch e.Kind {
	case EIdent:
		return e.Name, true
	case EField:
		if b, ok := exprTypeName(e.Args[0]); ok {
			return b + "." + e.Op, true
		}
	case EUnary:
		if e.Op == "*" {
			if b, ok := exprTypeName(e.Args[0]); ok {
				return "*" + b, true
			}
		}
	}
	return "", false
}

func (env *SpecEnv) pkgPath() string {
	if env.pkg == nil {
		return ""
	}
	return env.pkg.Path()
}

func (env *SpecEnv) callGhost(gf *GhostFunc, args []*Expr) (SpecVal, error) {
	vc := env.vc
	if len(args) != len(gf.Params) {
		return SpecVal{}, fmt.Errorf("ghost func %s: want %d arguments", gf.Name, len(gf.Params))
	}
	genv := &SpecEnv{vc: vc, pkg: vc.ctx.typesPkg(gf.PkgPath)}
	var sorts []Sort
	var terms []Term
	for i, p := range gf.Params {
		v, err := env.Eval(args[i])
		if err != nil {
			return SpecVal{}, err
		}
		var srt Sort = SInt
		if p.Type == "_" {
			srt = v.T.Sort
		} else {
			ty, err := genv.resolveTypeName(p.Type)
			if err != nil {
				return SpecVal{}, err
			}
			if ty != nil {
				srt, err = vc.tt.SortOf(ty)
				if err != nil {
					return SpecVal{}, err
				}
			}
		}
		t := v.T
		if v.Lit != nil {
			t = env.litTerm(v.Lit, srt)
		}
		if t.Sort != srt {
			return SpecVal{}, fmt.Errorf("ghost func %s: argument %d has sort %s, want %s", gf.Name, i, t.Sort, srt)
		}
		sorts = append(sorts, srt)
		terms = append(terms, t)
	}
	var rty types.Type
	var rs Sort = SInt
	var bvw int
	if gf.Result == "bool" {
		rs = SBool
	} else if n, _ := fmt.Sscanf(gf.Result, "bv%d", &bvw); n == 1 && bvw > 0 {
		rs = SBV(bvw)
	} else if gf.Result != "" && gf.Result != "mathint" {
		var err error
		rty, err = genv.resolveTypeName(gf.Result)
		if err != nil {
			return SpecVal{}, err
		}
		rs, err = vc.tt.SortOf(rty)
		if err != nil {
			return SpecVal{}, err
		}
	}
	name := "ghost!" + sanitize(gf.PkgPath+"."+gf.Name)
	for i, p := range gf.Params {
		if p.Type == "_" {
			name += "!" + sanitize(string(sorts[i]))
		}
	}
	vc.DeclareFun(name, sorts, rs)
	if len(terms) == 0 {
		return SpecVal{T: Term{name, rs}, Ty: rty}, nil
	}
	return SpecVal{T: App(rs, name, terms...), Ty: rty}, nil
}

func (env *SpecEnv) callPure(pf *PureFunc, args []*Expr) (SpecVal, error) {
	if len(args) != len(pf.Params) {
		return SpecVal{}, fmt.Errorf("pure func %s: want %d arguments", pf.Name, len(pf.Params))
	}
	if pf.Hidden && !(env.vc.contract != nil && env.vc.contract.Reveals[pf.Name]) {
		// uninterpreted here: a function of its argument values
		vc := env.vc
		var all []Term
		var sorts []Sort
		for i := range pf.Params {
			v, err := env.Eval(args[i])
			if err != nil {
				return SpecVal{}, err
			}
			t := v.T
			if v.Lit != nil {
				pty, perr := env.resolveTypeName(pf.Params[i].Type)
				if perr != nil || pty == nil {
					return SpecVal{}, fmt.Errorf("hidden pure func %s: literal argument %d needs a typed parameter", pf.Name, i)
				}
				srt, serr := vc.tt.SortOf(pty)
				if serr != nil {
					return SpecVal{}, serr
				}
				t = env.litTerm(v.Lit, srt)
			}
			all = append(all, t)
			sorts = append(sorts, t.Sort)
		}
		var rs Sort = SBool
		var rty types.Type
		if pf.Result != "bool" {
			var w int
			if n, _ := fmt.Sscanf(pf.Result, "bv%d", &w); n == 1 {
				rs = SBV(w)
			} else {
				t, err := env.resolveTypeName(pf.Result)
				if err != nil {
					return SpecVal{}, err
				}
				rty = t
				rs, err = vc.tt.SortOf(t)
				if err != nil {
					return SpecVal{}, err
				}
			}
		} else {
			rty = types.Typ[types.Bool]
		}
		name := "hid!" + sanitize(pf.PkgPath+"."+pf.Name)
		for _, srt := range sorts {
			name += "!" + sanitize(string(srt))
		}
		vc.DeclareFun(name, sorts, rs)
		return SpecVal{T: App(rs, name, all...), Ty: rty}, nil
	}
	sub := env.child()
	for i, p := range pf.Params {
		v, err := env.Eval(args[i])
		if err != nil {
			return SpecVal{}, err
		}
		ty, err := env.resolveTypeName(p.Type)
		if err != nil {
			// spec-only sorts such as bv256
			ty = nil
		}
		if v.Ty == nil {
			v.Ty = ty
		}
		sub.vars[p.Name] = v
	}
	// the body is written in the vocabulary of the package that declares the function
	if pf.PkgPath != "" && pf.PkgPath != env.pkgPath() {
		if tp := env.vc.ctx.typesPkg(pf.PkgPath); tp != nil {
			sub.pkg = tp
			// only the parameters are in scope, not the caller's variables
			vars := map[string]SpecVal{}
			for _, p := range pf.Params {
				vars[p.Name] = sub.vars[p.Name]
			}
			sub.vars = vars
			sub.lookup, sub.lookupAddr, sub.shadow = nil, nil, nil
		}
	}
	r, err := sub.Eval(pf.Body)
	env.assumes = append(env.assumes, sub.assumes...)
	return r, err
}

// callContracted models f(args) inside a lemma: a fresh result constrained by
// f's contract (requires ==> ensures), which is what callers are allowed to know.
func (env *SpecEnv) callContracted(fc *FuncContract, name string, args []*Expr) (SpecVal, error) {
	vc := env.vc
	fn := vc.ctx.funcFor(fc)
	if fn == nil {
		return SpecVal{}, fmt.Errorf("contracted function %s not found", name)
	}
	sig := fn.Signature
	if sig.Results().Len() != 1 || len(args) != sig.Params().Len() {
		return SpecVal{}, fmt.Errorf("spec call %s: arity mismatch", name)
	}
	sub := &SpecEnv{vc: vc, vars: map[string]SpecVal{}, cur: env.cur, old: env.cur, pkg: fn.Pkg.Pkg}
	var key []string
	for i, a := range args {
		v, err := env.Eval(a)
		if err != nil {
			return SpecVal{}, err
		}
		pt := sig.Params().At(i).Type()
		if v.Lit != nil {
			srt, _ := vc.tt.SortOf(pt)
			v.T = env.litTerm(v.Lit, srt)
		}
		v.Ty = pt
		sub.vars[fn.Params[i].Name()] = v
		key = append(key, v.T.S)
	}
	rt := sig.Results().At(0).Type()
	rs, err := vc.tt.SortOf(rt)
	if err != nil {
		return SpecVal{}, err
	}
	// function-consistent result: an uninterpreted function of the arguments
	var argSorts []Sort
	var argTerms []Term
	for i := range args {
		v := sub.vars[fn.Params[i].Name()]
		argSorts = append(argSorts, v.T.Sort)
		argTerms = append(argTerms, v.T)
	}
	ufName := "spec!" + sanitize(fc.PkgPath+"."+fc.Key)
	vc.DeclareFun(ufName, argSorts, rs)
	res := App(rs, ufName, argTerms...)
	sub.vars["result"] = SpecVal{T: res, Ty: rt}
	if sig.Results().At(0).Name() != "" {
		sub.vars[sig.Results().At(0).Name()] = SpecVal{T: res, Ty: rt}
	}
	var pres, posts []Term
	for _, c := range fc.Requires {
		t, err := sub.EvalBool(c.E)
		if err != nil {
			return SpecVal{}, err
		}
		pres = append(pres, t)
	}
	posts = append(posts, vc.rangeAssumption(res, rt, IntLit(1)))
	for _, c := range fc.Ensures {
		t, err := sub.EvalBool(c.E)
		if err != nil {
			return SpecVal{}, err
		}
		posts = append(posts, t)
	}
	env.assumes = append(env.assumes, Implies(And(pres...), And(posts...)))
	return SpecVal{T: res, Ty: rt}, nil
}

// lemmaInstance: the statement of lemma `name` (a lemma block of the package's contract file,
// proved as obligations of its own) instantiated with the given arguments:
// requires ==> ensures. Used for `loop k: uses lemma(args)`.
func (env *SpecEnv) lemmaInstance(call *Expr) (Term, error) {
	vc := env.vc
	if call.Kind != ECall || call.Args[0].Kind != EIdent {
		return Term{}, fmt.Errorf("uses: expected lemma(args)")
	}
	name := call.Args[0].Name
	var lc *FuncContract
	for _, fc := range vc.ctx.all {
		if fc.Kind == "lemma" && fc.PkgPath == env.pkgPath() && fc.Key == name {
			lc = fc
		}
	}
	if lc == nil {
		return Term{}, fmt.Errorf("uses: no lemma %q in this package", name)
	}
	args := call.Args[1:]
	if len(args) != len(lc.LemmaParams) {
		return Term{}, fmt.Errorf("uses: lemma %s takes %d arguments", name, len(lc.LemmaParams))
	}
	sub := env.child()
	sub.inLemma = true
	for i, p := range lc.LemmaParams {
		v, err := env.Eval(args[i])
		if err != nil {
			return Term{}, err
		}
		ty, err := env.resolveTypeName(p.Type)
		if err != nil {
			return Term{}, err
		}
		t := v.T
		if v.Lit != nil {
			t = env.litTerm(v.Lit, SInt)
		}
		if ty == nil && v.Ty != nil {
			t = vc.toIndex(v.T, v.Ty) // mathint parameter: the mathematical value
		}
		sub.vars[p.Name] = SpecVal{T: t, Ty: ty}
	}
	var pre, post []Term
	for _, rq := range lc.Requires {
		t, err := sub.EvalBool(rq.E)
		if err != nil {
			return Term{}, err
		}
		pre = append(pre, t)
	}
	for _, en := range lc.Ensures {
		t, err := sub.EvalBool(en.E)
		if err != nil {
			return Term{}, err
		}
		post = append(post, t)
	}
	return Implies(And(pre...), And(post...)), nil
}
