package main

import (
	"context"
	"encoding/json"
	"fmt"
	"go/types"
	"math/big"
	"os"
	"os/exec"
	"path/filepath"
	"regexp"
	"sort"
	"strings"
	"time"

	"golang.org/x/tools/go/ssa"
)

const replayElems = 96

// valueSpec describes how to read a Go value out of a model and print it as Go source.
type valueSpec struct {
	small []Term // small-scope bounds that make the rendering complete
	terms []Term
	build func(vals []*SExp, q *qualifier) (string, bool)
}

type qualifier struct {
	pkg     *types.Package
	imports map[string]string // path -> name
}

func (q *qualifier) qual(p *types.Package) string {
	if p == q.pkg {
		return ""
	}
	q.imports[p.Path()] = p.Name()
	return p.Name()
}

func (q *qualifier) typeString(t types.Type) string { return types.TypeString(t, q.qual) }

func exportedEnough(t types.Type, pkg *types.Package) bool {
	ok := true
	var walk func(t types.Type)
	seen := map[types.Type]bool{}
	walk = func(t types.Type) {
		if seen[t] {
			return
		}
		seen[t] = true
		switch u := t.(type) {
		case *types.Named:
			if u.Obj().Pkg() != nil && u.Obj().Pkg() != pkg && !u.Obj().Exported() {
				ok = false
			}
		case *types.Pointer:
			walk(u.Elem())
		case *types.Slice:
			walk(u.Elem())
		case *types.Array:
			walk(u.Elem())
		}
	}
	walk(t)
	return ok
}

// specFor builds a valueSpec for a value v of Go type t living in state st.
func (vc *VC) specFor(v Term, t types.Type, st *State, depth int) (sp *valueSpec, ok bool) {
	if os.Getenv("GOCV_REPLAYDEBUG") != "" {
		defer func() {
			if !ok {
				fmt.Fprintf(os.Stderr, "specFor: cannot build %s (depth %d)\n", t, depth)
			}
		}()
	}
	if depth > 8 {
		return nil, false
	}
	if _, ok := vc.tt.isOpaque(t); ok {
		return nil, false
	}
	if isAbstractTP(t) {
		// a value of an abstract type parameter: the model says nothing about its structure; the
		// replay uses the zero value of whatever the parameter is instantiated with
		return &valueSpec{build: func(vals []*SExp, q *qualifier) (string, bool) {
			return fmt.Sprintf("*new(%s)", q.typeString(t)), true
		}}, true
	}
	switch u := U(t).(type) {
	case *types.Basic:
		if u.Kind() == types.Bool {
			return &valueSpec{terms: []Term{v}, build: func(vals []*SExp, q *qualifier) (string, bool) {
				if vals[0].Atom == "true" || vals[0].Atom == "false" {
					return fmt.Sprintf("%s(%s)", q.typeString(t), vals[0].Atom), true
				}
				return "", false
			}}, true
		}
		if w, signed, ok := intInfo(u); ok {
			// cells the function never reads are unconstrained in the VC: the rendered value must
			// still be a value of its type
			var small []Term
			if vc.mode == ModeInt {
				small = []Term{vc.rangeAssumption(v, t, IntLit(0))}
			}
			return &valueSpec{terms: []Term{v}, small: small, build: func(vals []*SExp, q *qualifier) (string, bool) {
				n, ok := sexpInt(vals[0])
				if !ok {
					return "", false
				}
				if signed && n.Cmp(pow2(w-1)) >= 0 {
					n = new(big.Int).Sub(n, pow2(w))
				}
				return fmt.Sprintf("%s(%s)", q.typeString(t), n.String()), true
			}}, true
		}
		if u.Kind() == types.String {
			return &valueSpec{terms: []Term{App(SInt, "strlen", v)}, build: func(vals []*SExp, q *qualifier) (string, bool) {
				n, ok := sexpInt(vals[0])
				if !ok || !n.IsInt64() || n.Int64() > 1<<20 {
					return "", false
				}
				return fmt.Sprintf("%s(strings.Repeat(\"a\", %d))", q.typeString(t), n.Int64()), true
			}}, true
		}
	case *types.Slice:
		if vc.tt.isAggregate(u.Elem()) {
			return nil, false
		}
		k := vc.tt.Slots(u.Elem())
		terms := []Term{SLen(v), SCap(v), Rid(SBase(v))}
		var elemSpecs []*valueSpec
		for i := 0; i < replayElems; i++ {
			addr := RefAdd(SBase(v), IntLit(int64(i)*k))
			ev, err := vc.loadRaw(st, addr, u.Elem())
			if err != nil {
				return nil, false
			}
			es, ok := vc.specFor(ev, u.Elem(), st, depth+1)
			if !ok {
				return nil, false
			}
			elemSpecs = append(elemSpecs, es)
			terms = append(terms, es.terms...)
		}
		small := []Term{Le(SLen(v), IntLit(replayElems))}
		for _, es := range elemSpecs {
			small = append(small, es.small...)
		}
		return &valueSpec{terms: terms, small: small, build: func(vals []*SExp, q *qualifier) (string, bool) {
			n, ok1 := sexpInt(vals[0])
			c, ok2 := sexpInt(vals[1])
			rid, ok3 := sexpInt(vals[2])
			if !ok1 || !ok2 || !ok3 || !n.IsInt64() || !c.IsInt64() {
				return "", false
			}
			ts := q.typeString(t)
			if rid.Sign() == 0 {
				return fmt.Sprintf("%s(nil)", ts), true
			}
			ln, cp := n.Int64(), c.Int64()
			if ln > 1<<22 {
				return "", false
			}
			if cp > ln+64 {
				cp = ln + 64
			}
			var sb strings.Builder
			fmt.Fprintf(&sb, "func() %s { s := make(%s, %d, %d); ", ts, ts, ln, cp)
			pos := 3
			for i := 0; i < replayElems; i++ {
				nv := len(elemSpecs[i].terms)
				if int64(i) < ln {
					e, ok := elemSpecs[i].build(vals[pos:pos+nv], q)
					if !ok {
						return "", false
					}
					fmt.Fprintf(&sb, "s[%d] = %s; ", i, e)
				}
				pos += nv
			}
			sb.WriteString("return s }()")
			return sb.String(), true
		}}, true
	case *types.Pointer:
		el := u.Elem()
		if _, ok := U(el).(*types.Struct); !ok {
			_, isBasic := U(el).(*types.Basic)
			_, isArr := U(el).(*types.Array)
			if !isBasic && !isArr && !isAbstractTP(el) {
				return nil, false
			}
		}
		ev, err := vc.loadRaw(st, v, el)
		if err != nil {
			return nil, false
		}
		es, ok := vc.specFor(ev, el, st, depth+1)
		if !ok {
			return nil, false
		}
		terms := append([]Term{Rid(v)}, es.terms...)
		return &valueSpec{terms: terms, small: es.small, build: func(vals []*SExp, q *qualifier) (string, bool) {
			rid, ok := sexpInt(vals[0])
			if !ok {
				return "", false
			}
			if rid.Sign() == 0 {
				return fmt.Sprintf("(%s)(nil)", q.typeString(t)), true
			}
			e, ok := es.build(vals[1:], q)
			if !ok {
				return "", false
			}
			return fmt.Sprintf("func() %s { x := %s; return &x }()", q.typeString(t), e), true
		}}, true
	case *types.Struct:
		srt, err := vc.tt.SortOf(t)
		if err != nil {
			return nil, false
		}
		var fspecs []*valueSpec
		var terms, small []Term
		for i := 0; i < u.NumFields(); i++ {
			fs, err := vc.tt.SortOf(u.Field(i).Type())
			if err != nil {
				return nil, false
			}
			sp, ok := vc.specFor(App(fs, structFieldAccessor(srt, i), v), u.Field(i).Type(), st, depth+1)
			if !ok {
				return nil, false
			}
			fspecs = append(fspecs, sp)
			terms = append(terms, sp.terms...)
			small = append(small, sp.small...)
		}
		return &valueSpec{terms: terms, small: small, build: func(vals []*SExp, q *qualifier) (string, bool) {
			var parts []string
			pos := 0
			for i, sp := range fspecs {
				e, ok := sp.build(vals[pos:pos+len(sp.terms)], q)
				if !ok {
					return "", false
				}
				pos += len(sp.terms)
				if u.Field(i).Name() == "_" {
					continue
				}
				parts = append(parts, fmt.Sprintf("%s: %s", u.Field(i).Name(), e))
			}
			return fmt.Sprintf("%s{%s}", q.typeString(t), strings.Join(parts, ", ")), true
		}}, true
	case *types.Array:
		if u.Len() > 64 {
			return nil, false
		}
		var especs []*valueSpec
		var terms []Term
		for i := int64(0); i < u.Len(); i++ {
			sp, ok := vc.specFor(Select(v, IntLit(i)), u.Elem(), st, depth+1)
			if !ok {
				return nil, false
			}
			especs = append(especs, sp)
			terms = append(terms, sp.terms...)
		}
		return &valueSpec{terms: terms, build: func(vals []*SExp, q *qualifier) (string, bool) {
			var parts []string
			pos := 0
			for _, sp := range especs {
				e, ok := sp.build(vals[pos:pos+len(sp.terms)], q)
				if !ok {
					return "", false
				}
				pos += len(sp.terms)
				parts = append(parts, e)
			}
			return fmt.Sprintf("%s{%s}", q.typeString(t), strings.Join(parts, ", ")), true
		}}, true
	}
	return nil, false
}

type ReplayOutcome struct {
	Attempted bool
	Confirmed bool
	Status    string // confirmed | mismatch | not-replayable | error
	Detail    string
	TestSrc   string
	Output    string
}

// Replay re-solves the obligation asking for concrete inputs and runs the real function on them.
func Replay(ctx *Ctx, fres *FuncResult, o *Obligation, secs int) ReplayOutcome {
	vc := fres.VC
	useCoreTypes = fres.Contract.CoreTypes
	fn := vc.root
	if fn == nil {
		return ReplayOutcome{Status: "not-replayable", Detail: "lemma: nothing to execute"}
	}
	tps, tpOK := replayTypeParams(fn)
	if !tpOK {
		return ReplayOutcome{Status: "not-replayable", Detail: "generic function whose type parameters cannot be instantiated mechanically"}
	}
	if o.Kind != "safe" && o.Kind != "ensures" {
		return ReplayOutcome{Status: "not-replayable", Detail: "obligation kind " + o.Kind + " has no executable witness"}
	}
	if strings.Contains(o.Name, "/") {
		// failure inside an inlined callee still manifests when the root is executed
	}
	entry := vc.entryState
	if entry == nil {
		return ReplayOutcome{Status: "not-replayable", Detail: "no entry state"}
	}
	pkg := fn.Pkg.Pkg
	var specs []*valueSpec
	for i, p := range fn.Params {
		if !exportedEnough(p.Type(), pkg) {
			return ReplayOutcome{Status: "not-replayable", Detail: "parameter type not nameable from the package"}
		}
		sp, ok := vc.specFor(vc.paramTerms[i], p.Type(), entry, 0)
		if !ok {
			return ReplayOutcome{Status: "not-replayable", Detail: fmt.Sprintf("parameter %s of type %s cannot be built from a model", p.Name(), p.Type())}
		}
		specs = append(specs, sp)
	}
	// expected results (ensures only): scalar results
	var rspecs []*valueSpec
	var rIdx []int
	execCond := ""
	var gs *goSpec
	if o.Kind == "ensures" && o.Spec != nil {
		gs = newGoSpec(ctx, fn, fres.Contract)
		if c, err := gs.tr(o.Spec, false); err == nil {
			execCond = c
		}
	}
	if o.Kind == "ensures" && vc.exitState != nil {
		for i, r := range vc.resultTerms {
			rt := fn.Signature.Results().At(i).Type()
			switch U(rt).(type) {
			case *types.Basic, *types.Slice:
				if sp, ok := vc.specFor(r, rt, vc.exitState, 0); ok {
					rspecs = append(rspecs, sp)
					rIdx = append(rIdx, i)
				}
			}
		}
		if len(rspecs) == 0 && execCond == "" {
			return ReplayOutcome{Status: "not-replayable", Detail: "no comparable result value and the clause is not executable"}
		}
	}
	var watch []WatchTerm
	for _, sp := range specs {
		for _, t := range sp.terms {
			watch = append(watch, WatchTerm{"in", t})
		}
	}
	for _, sp := range rspecs {
		for _, t := range sp.terms {
			watch = append(watch, WatchTerm{"out", t})
		}
	}
	vc.declsCache = "" // new sorts / heaps may have been registered while building the value specs
	o2 := *o
	o2.Watch = watch
	for _, sp := range specs {
		o2.Extra = append(o2.Extra, sp.small...)
	}
	saved := vc.inputs
	vc.inputs = nil
	q := vc.Query(&o2, false, true)
	vc.inputs = saved
	tag := "replay" + fmt.Sprint(hashString(o.Name))
	r := runSolver(context.Background(), solvers[0], q, secs, tag)
	if r.Status != "sat" && r.Status != "unsat" {
		if rs, ok := solveSplit(q, secs, tag); ok {
			r = rs
		}
	}
	if r.Status != "sat" && r.Status != "unsat" {
		r = runSolver(context.Background(), solvers[2], q, secs, tag)
	}
	if r.Status != "sat" {
		return ReplayOutcome{Status: "not-replayable", Detail: "no counterexample within the small scope (slices of at most 96 elements): " + r.Status}
	}
	vals := parseModelValues(r.Model)
	if o.Taint.Valid() && o.Taint.S != "false" && len(vals) > 0 {
		// the first value is the taint flag (Query puts it before Watch)
		vals = vals[1:]
	}
	if len(vals) != len(watch) {
		if d := os.Getenv("GOCV_REPLAYDEBUG"); d != "" {
			os.WriteFile(filepath.Join(d, tag+".smt2"), []byte(q), 0o644)
			os.WriteFile(filepath.Join(d, tag+".out"), []byte(r.Raw), 0o644)
		}
		return ReplayOutcome{Status: "error", Detail: fmt.Sprintf("model has %d values for %d terms", len(vals), len(watch))}
	}
	ql := &qualifier{pkg: pkg, imports: map[string]string{}}
	pos := 0
	var argExprs []string
	for _, sp := range specs {
		e, ok := sp.build(vals[pos:pos+len(sp.terms)], ql)
		if !ok {
			return ReplayOutcome{Status: "not-replayable", Detail: "model value cannot be rendered as Go"}
		}
		pos += len(sp.terms)
		argExprs = append(argExprs, e)
	}
	var expExprs []string
	for _, sp := range rspecs {
		e, ok := sp.build(vals[pos:pos+len(sp.terms)], ql)
		if !ok {
			if execCond != "" {
				rspecs, expExprs = nil, nil
				break
			}
			return ReplayOutcome{Status: "not-replayable", Detail: "expected result cannot be rendered as Go"}
		}
		pos += len(sp.terms)
		expExprs = append(expExprs, e)
	}
	finish := func(src string) ReplayOutcome {
		out, err := runReplayTest(ctx, fn, src)
		ro := ReplayOutcome{Attempted: true, TestSrc: src, Output: out}
		switch {
		case err != nil && !strings.Contains(out, "GOCV-REPLAY"):
			ro.Status = "error"
			ro.Detail = err.Error()
		case strings.Contains(out, "GOCV-REPLAY: confirmed"):
			ro.Status = "confirmed"
			ro.Confirmed = true
		default:
			ro.Status = "mismatch"
		}
		for _, l := range strings.Split(out, "\n") {
			if strings.Contains(l, "GOCV-REPLAY") {
				ro.Detail = strings.TrimSpace(l)
			}
		}
		return ro
	}
	if execCond != "" {
		// first choice: run the real code on the counterexample's inputs and evaluate the violated
		// clause itself on what it returns
		ql2 := &qualifier{pkg: pkg, imports: map[string]string{}}
		for k, v := range ql.imports {
			ql2.imports[k] = v
		}
		ro := finish(buildExecReplayTest(fn, pkg, ql2, argExprs, execCond, gs.needIte, o, tps))
		if ro.Status != "error" || len(rspecs) == 0 {
			return ro
		}
	}
	if len(rspecs) == 0 && o.Kind != "safe" {
		// (a run-time failure needs no result to compare: the call panics or it does not)
		return ReplayOutcome{Status: "not-replayable", Detail: "no comparable result value"}
	}
	return finish(buildReplayTest(fn, pkg, ql, argExprs, rIdx, expExprs, o, tps))
}

func newGoSpec(ctx *Ctx, fn *ssa.Function, c *FuncContract) *goSpec {
	gs := &goSpec{pol: 1, ctx: ctx, pkgPath: c.PkgPath, params: map[string]int{}, results: map[string]int{}, bound: map[string]string{}}
	var recvT types.Type
	if fn.Signature.Recv() != nil {
		recvT = fn.Signature.Recv().Type()
	}
	names, _ := sigNames(fn.Signature, recvT)
	for i, n := range names {
		gs.params[n] = i
	}
	res := fn.Signature.Results()
	for i := 0; i < res.Len(); i++ {
		gs.results[fmt.Sprintf("result%d", i)] = i
		if res.Len() == 1 {
			gs.results["result"] = i
		}
		if n := res.At(i).Name(); n != "" && n != "_" {
			if _, clash := gs.params[n]; !clash {
				gs.results[n] = i
			}
		}
	}
	return gs
}

// buildExecReplayTest: arguments a<i>, an untouched second copy o<i> for old(), the real call,
// then the violated clause evaluated on the real results.
func buildExecReplayTest(fn *ssa.Function, pkg *types.Package, ql *qualifier, args []string, cond string, needIte bool, o *Obligation, tps []*types.TypeParam) string {
	var body strings.Builder
	for i := range args {
		fmt.Fprintf(&body, "\ta%d := %s\n\to%d := %s\n\t_, _ = a%d, o%d\n", i, args[i], i, args[i], i, i)
	}
	recvOff := 0
	call := ""
	if fn.Signature.Recv() != nil {
		recvOff = 1
		call = fmt.Sprintf("(a0).%s(", fn.Name())
	} else {
		call = fn.Name()
		if l := fn.Signature.TypeParams(); l != nil {
			var ns []string
			for i := 0; i < l.Len(); i++ {
				ns = append(ns, l.At(i).Obj().Name())
			}
			call += "[" + strings.Join(ns, ", ") + "]"
		}
		call += "("
	}
	var cargs []string
	for i := recvOff; i < len(args); i++ {
		a := fmt.Sprintf("a%d", i)
		if fn.Signature.Variadic() && i == len(args)-1 {
			a += "..."
		}
		cargs = append(cargs, a)
	}
	call += strings.Join(cargs, ", ") + ")"
	nres := fn.Signature.Results().Len()
	body.WriteString("\tphase := \"call\"\n")
	body.WriteString("\tdefer func() {\n\t\tif r := recover(); r != nil {\n\t\t\tfmt.Printf(\"GOCV-REPLAY: mismatch (panic during %s: %v)\\n\", phase, r)\n\t\t}\n\t}()\n")
	if nres > 0 {
		var lhs []string
		for i := 0; i < nres; i++ {
			lhs = append(lhs, fmt.Sprintf("r%d", i))
		}
		fmt.Fprintf(&body, "\t%s := %s\n", strings.Join(lhs, ", "), call)
		for i := 0; i < nres; i++ {
			fmt.Fprintf(&body, "\t_ = r%d\n", i)
		}
	} else {
		fmt.Fprintf(&body, "\t%s\n", call)
	}
	body.WriteString("\tphase = \"evaluation of the clause\"\n")
	fmt.Fprintf(&body, "\tholds := %s\n", cond)
	fmt.Fprintf(&body, "\tif !holds {\n\t\tfmt.Printf(\"GOCV-REPLAY: confirmed: on the counterexample's inputs the real code returns values that violate: %%s\\n\", %q)\n\t} else {\n\t\tfmt.Println(\"GOCV-REPLAY: mismatch (the clause holds on the real results for these inputs)\")\n\t}\n", o.Descr)
	ql.imports["fmt"] = "fmt"
	ql.imports["testing"] = "testing"
	src := body.String()
	if strings.Contains(src, "strings.Repeat") {
		ql.imports["strings"] = "strings"
	}
	helper := ""
	if needIte {
		helper = "func gocvIte[T any](c bool, a, b T) T {\n\tif c {\n\t\treturn a\n\t}\n\treturn b\n}\n\n"
	}
	var tpl []string
	decls, inst := "", ""
	if len(tps) > 0 {
		for _, tp := range tps {
			tpl = append(tpl, tp.Obj().Name()+" "+ql.typeString(tp.Constraint()))
		}
		decls, inst = replayInstantiation(tps, ql)
	}
	var imps []string
	for p := range ql.imports {
		imps = append(imps, p)
	}
	sort.Strings(imps)
	var sb strings.Builder
	fmt.Fprintf(&sb, "package %s\n\nimport (\n", pkg.Name())
	for _, p := range imps {
		fmt.Fprintf(&sb, "\t%s %q\n", ql.imports[p], p)
	}
	sb.WriteString(")\n\n")
	sb.WriteString(helper)
	if len(tps) > 0 {
		sb.WriteString(decls)
		fmt.Fprintf(&sb, "\n// generated by gocv: replay of a counterexample for\n//   %s\nfunc verifReplayGeneric[%s](t *testing.T) {\n%s}\n\nfunc TestVerifReplay(t *testing.T) { verifReplayGeneric[%s](t) }\n",
			o.Name, strings.Join(tpl, ", "), src, inst)
		return sb.String()
	}
	fmt.Fprintf(&sb, "// generated by gocv: replay of a counterexample for\n//   %s\nfunc TestVerifReplay(t *testing.T) {\n%s}\n", o.Name, src)
	return sb.String()
}

// replayTypeParams lists the type parameters of fn (receiver's first). ok=false when one of them
// has a constraint with methods but no core type (no mechanical instantiation).
func replayTypeParams(fn *ssa.Function) ([]*types.TypeParam, bool) {
	var tps []*types.TypeParam
	for _, l := range []*types.TypeParamList{fn.Signature.RecvTypeParams(), fn.Signature.TypeParams()} {
		if l == nil {
			continue
		}
		for i := 0; i < l.Len(); i++ {
			tps = append(tps, l.At(i))
		}
	}
	saved := useCoreTypes
	useCoreTypes = true
	defer func() { useCoreTypes = saved }()
	// every type parameter gets a concrete [4]uint64-like type with stub methods (see
	// replayInstantiation); constraints that such a type cannot satisfy make the test fail to
	// compile, which is reported as a replay error, not as a result
	return tps, true
}

// replayInstantiation declares one concrete type per type parameter: its core type when the
// constraint has one ([4]uint64 otherwise), with stub methods (returning zero values) for the
// methods the constraint asks for. Returns the declarations and the instantiation list.
func replayInstantiation(tps []*types.TypeParam, ql *qualifier) (string, string) {
	saved := useCoreTypes
	useCoreTypes = true
	defer func() { useCoreTypes = saved }()
	conc := map[string]string{}
	for _, tp := range tps {
		conc[tp.Obj().Name()] = "gocvT" + tp.Obj().Name()
	}
	subst := func(s string) string {
		for n, c := range conc {
			s = regexpWord(n).ReplaceAllString(s, c)
		}
		return s
	}
	var decl strings.Builder
	var inst []string
	for _, tp := range tps {
		name := conc[tp.Obj().Name()]
		core := "[4]uint64"
		if c := coreOf(tp); c != nil {
			core = ql.typeString(c)
		}
		fmt.Fprintf(&decl, "type %s %s\n", name, core)
		if it, ok := tp.Constraint().Underlying().(*types.Interface); ok {
			for i := 0; i < it.NumMethods(); i++ {
				m := it.Method(i)
				sig := m.Type().(*types.Signature)
				var ps, rs, body []string
				for k := 0; k < sig.Params().Len(); k++ {
					ps = append(ps, fmt.Sprintf("p%d %s", k, subst(ql.typeString(sig.Params().At(k).Type()))))
				}
				for k := 0; k < sig.Results().Len(); k++ {
					rs = append(rs, fmt.Sprintf("r%d %s", k, subst(ql.typeString(sig.Results().At(k).Type()))))
				}
				_ = body
				fmt.Fprintf(&decl, "func (x %s) %s(%s) (%s) { return }\n", name, m.Name(), strings.Join(ps, ", "), strings.Join(rs, ", "))
			}
		}
		inst = append(inst, name)
	}
	return decl.String(), strings.Join(inst, ", ")
}

func buildReplayTest(fn *ssa.Function, pkg *types.Package, ql *qualifier, args []string, rIdx []int, exps []string, o *Obligation, tps []*types.TypeParam) string {
	var body strings.Builder
	call := ""
	recvOff := 0
	if fn.Signature.Recv() != nil {
		recvOff = 1
		call = fmt.Sprintf("(a0).%s(", fn.Name())
	} else {
		call = fn.Name()
		if l := fn.Signature.TypeParams(); l != nil {
			var ns []string
			for i := 0; i < l.Len(); i++ {
				ns = append(ns, l.At(i).Obj().Name())
			}
			call += "[" + strings.Join(ns, ", ") + "]"
		}
		call += "("
	}
	for i := range args {
		fmt.Fprintf(&body, "\ta%d := %s\n", i, args[i])
	}
	var cargs []string
	for i := recvOff; i < len(args); i++ {
		a := fmt.Sprintf("a%d", i)
		if fn.Signature.Variadic() && i == len(args)-1 {
			a += "..."
		}
		cargs = append(cargs, a)
	}
	call += strings.Join(cargs, ", ") + ")"
	nres := fn.Signature.Results().Len()
	var lhs []string
	for i := 0; i < nres; i++ {
		used := false
		for _, k := range rIdx {
			if k == i {
				used = true
			}
		}
		if used {
			lhs = append(lhs, fmt.Sprintf("r%d", i))
		} else {
			lhs = append(lhs, "_")
		}
	}
	expectPanic := o.Kind == "safe"
	body.WriteString("\tdefer func() {\n\t\tif r := recover(); r != nil {\n")
	if expectPanic {
		body.WriteString("\t\t\tfmt.Printf(\"GOCV-REPLAY: confirmed panic: %v\\n\", r)\n")
	} else {
		body.WriteString("\t\t\tfmt.Printf(\"GOCV-REPLAY: mismatch (unexpected panic): %v\\n\", r)\n")
	}
	body.WriteString("\t\t}\n\t}()\n")
	if nres > 0 && len(rIdx) > 0 {
		fmt.Fprintf(&body, "\t%s := %s\n", strings.Join(lhs, ", "), call)
	} else {
		fmt.Fprintf(&body, "\t%s\n", call)
	}
	if expectPanic {
		body.WriteString("\tfmt.Println(\"GOCV-REPLAY: mismatch (no panic)\")\n")
	} else {
		var conds []string
		for j, k := range rIdx {
			fmt.Fprintf(&body, "\te%d := %s\n", k, exps[j])
			conds = append(conds, fmt.Sprintf("reflect.DeepEqual(r%d, e%d)", k, k))
			ql.imports["reflect"] = "reflect"
		}
		fmt.Fprintf(&body, "\tif %s {\n\t\tfmt.Printf(\"GOCV-REPLAY: confirmed: real code returns the values of the counterexample, which violate: %%s\\n\", %q)\n\t} else {\n\t\tfmt.Println(\"GOCV-REPLAY: mismatch (real results differ from the model)\")\n\t}\n", strings.Join(conds, " && "), o.Descr)
	}
	ql.imports["fmt"] = "fmt"
	ql.imports["testing"] = "testing"
	src := body.String()
	if strings.Contains(src, "strings.Repeat") {
		ql.imports["strings"] = "strings"
	}
	var imps []string
	for p := range ql.imports {
		imps = append(imps, p)
	}
	sort.Strings(imps)
	var sb strings.Builder
	fmt.Fprintf(&sb, "package %s\n\nimport (\n", pkg.Name())
	for _, p := range imps {
		fmt.Fprintf(&sb, "\t%s %q\n", ql.imports[p], p)
	}
	sb.WriteString(")\n\n")
	if len(tps) > 0 {
		// the body runs inside a generic helper with the function's own type parameter names, so
		// that the rendered types and composite literals read as in the source
		var tpl []string
		for _, tp := range tps {
			tpl = append(tpl, tp.Obj().Name()+" "+ql.typeString(tp.Constraint()))
		}
		decls, inst := replayInstantiation(tps, ql)
		var sb2 strings.Builder
		fmt.Fprintf(&sb2, "package %s\n\nimport (\n", pkg.Name())
		imps = imps[:0]
		for p := range ql.imports {
			imps = append(imps, p)
		}
		sort.Strings(imps)
		for _, p := range imps {
			fmt.Fprintf(&sb2, "\t%s %q\n", ql.imports[p], p)
		}
		sb2.WriteString(")\n\n")
		sb2.WriteString(decls)
		fmt.Fprintf(&sb2, "\n// generated by gocv: replay of a counterexample for\n//   %s\nfunc verifReplayGeneric[%s](t *testing.T) {\n%s}\n\nfunc TestVerifReplay(t *testing.T) { verifReplayGeneric[%s](t) }\n",
			o.Name, strings.Join(tpl, ", "), src, inst)
		return sb2.String()
	}
	fmt.Fprintf(&sb, "// generated by gocv: replay of a counterexample for\n//   %s\nfunc TestVerifReplay(t *testing.T) {\n%s}\n", o.Name, src)
	return sb.String()
}

func runReplayTest(ctx *Ctx, fn *ssa.Function, src string) (string, error) {
	pos := ctx.prog.Fset.Position(fn.Pos())
	return runReplayTestIn(filepath.Dir(pos.Filename), src)
}

func runReplayTestIn(dir string, src string) (string, error) {
	tmp, err := os.MkdirTemp("", "gocv-replay-")
	if err != nil {
		return "", err
	}
	defer os.RemoveAll(tmp)
	testFile := filepath.Join(tmp, "zz_verif_replay_test.go")
	if err := os.WriteFile(testFile, []byte(src), 0o644); err != nil {
		return "", err
	}
	ov := map[string]map[string]string{"Replace": {filepath.Join(dir, "zz_verif_replay_test.go"): testFile}}
	for real, repl := range overlayFiles {
		ov["Replace"][real] = repl
	}
	ovb, _ := json.Marshal(ov)
	ovFile := filepath.Join(tmp, "ov.json")
	os.WriteFile(ovFile, ovb, 0o644)
	cctx, cancel := context.WithTimeout(context.Background(), 180*time.Second)
	defer cancel()
	cmd := exec.CommandContext(cctx, "go", "test", "-overlay", ovFile, "-vet=off", "-count=1", "-timeout", "60s", "-run", "^TestVerifReplay$", "-v", ".")
	cmd.Dir = dir
	cmd.Env = append(os.Environ(), "GOFLAGS=-mod=mod")
	out, err := cmd.CombinedOutput()
	return string(out), err
}

func regexpWord(w string) *regexp.Regexp { return regexp.MustCompile(`\b` + regexp.QuoteMeta(w) + `\b`) }
