package main

import (
	"fmt"
	"math/big"
	"strings"
)

// Sort is an SMT-LIB sort written out.
type Sort string

const (
	SInt   Sort = "Int"
	SBool  Sort = "Bool"
	SRef   Sort = "Ref"
	SSlice Sort = "Slice"
	SIface Sort = "Iface"
	SStr   Sort = "Str"
	SFunc  Sort = "Func"
)

func SBV(w int) Sort           { return Sort(fmt.Sprintf("(_ BitVec %d)", w)) }
func SArray(k, v Sort) Sort    { return Sort(fmt.Sprintf("(Array %s %s)", k, v)) }
func (s Sort) IsBV() (int, bool) {
	var w int
	if n, _ := fmt.Sscanf(string(s), "(_ BitVec %d)", &w); n == 1 {
		return w, true
	}
	return 0, false
}

// Term is an SMT-LIB term with its sort.
type Term struct {
	S    string
	Sort Sort
}

func (t Term) String() string { return t.S }
func (t Term) Valid() bool    { return t.S != "" }

var (
	True  = Term{"true", SBool}
	False = Term{"false", SBool}
)

func App(sort Sort, op string, args ...Term) Term {
	var sb strings.Builder
	sb.WriteByte('(')
	sb.WriteString(op)
	for _, a := range args {
		sb.WriteByte(' ')
		sb.WriteString(a.S)
	}
	sb.WriteByte(')')
	return Term{sb.String(), sort}
}

func IntLit(n int64) Term { return IntLitBig(big.NewInt(n)) }
func IntLitBig(n *big.Int) Term {
	if n.Sign() < 0 {
		return Term{"(- " + new(big.Int).Neg(n).String() + ")", SInt}
	}
	return Term{n.String(), SInt}
}
func BVLit(n *big.Int, w int) Term {
	m := new(big.Int).Lsh(big.NewInt(1), uint(w))
	v := new(big.Int).Mod(n, m)
	return Term{fmt.Sprintf("(_ bv%s %d)", v.String(), w), SBV(w)}
}
func BoolLit(b bool) Term {
	if b {
		return True
	}
	return False
}

func And(ts ...Term) Term {
	var out []Term
	for _, t := range ts {
		if t.S == "true" {
			continue
		}
		if t.S == "false" {
			return False
		}
		out = append(out, t)
	}
	switch len(out) {
	case 0:
		return True
	case 1:
		return out[0]
	}
	return App(SBool, "and", out...)
}
func Or(ts ...Term) Term {
	var out []Term
	for _, t := range ts {
		if t.S == "false" {
			continue
		}
		if t.S == "true" {
			return True
		}
		out = append(out, t)
	}
	switch len(out) {
	case 0:
		return False
	case 1:
		return out[0]
	}
	return App(SBool, "or", out...)
}
func Not(t Term) Term {
	switch t.S {
	case "true":
		return False
	case "false":
		return True
	}
	if strings.HasPrefix(t.S, "(not ") {
		return Term{t.S[5 : len(t.S)-1], SBool}
	}
	return App(SBool, "not", t)
}
func Implies(a, b Term) Term {
	if a.S == "true" {
		return b
	}
	if a.S == "false" || b.S == "true" {
		return True
	}
	return App(SBool, "=>", a, b)
}
func Ite(c, a, b Term) Term {
	if c.S == "true" {
		return a
	}
	if c.S == "false" {
		return b
	}
	if a.S == b.S {
		return a
	}
	return App(a.Sort, "ite", c, a, b)
}
func Eq(a, b Term) Term {
	if a.S == b.S {
		return True
	}
	return App(SBool, "=", a, b)
}
func Neq(a, b Term) Term { return Not(Eq(a, b)) }

func Add(a, b Term) Term { return App(SInt, "+", a, b) }
func Sub(a, b Term) Term { return App(SInt, "-", a, b) }
func Mul(a, b Term) Term { return App(SInt, "*", a, b) }
func Le(a, b Term) Term  { return App(SBool, "<=", a, b) }
func Lt(a, b Term) Term  { return App(SBool, "<", a, b) }
func Ge(a, b Term) Term  { return App(SBool, ">=", a, b) }
func Gt(a, b Term) Term  { return App(SBool, ">", a, b) }

func Select(a, i Term) Term {
	// sort of result: parse "(Array K V)"
	return App(arrayElemSort(a.Sort), "select", a, i)
}
func Store(a, i, v Term) Term { return App(a.Sort, "store", a, i, v) }

// arrayElemSort returns V from "(Array K V)".
func arrayElemSort(s Sort) Sort {
	_, v := splitArraySort(s)
	return v
}
func arrayKeySort(s Sort) Sort {
	k, _ := splitArraySort(s)
	return k
}
func splitArraySort(s Sort) (Sort, Sort) {
	str := string(s)
	if !strings.HasPrefix(str, "(Array ") {
		panic("not an array sort: " + str)
	}
	body := str[len("(Array ") : len(str)-1]
	// split at top-level space
	depth := 0
	for i, c := range body {
		switch c {
		case '(':
			depth++
		case ')':
			depth--
		case ' ':
			if depth == 0 {
				return Sort(body[:i]), Sort(body[i+1:])
			}
		}
	}
	panic("bad array sort: " + str)
}

// Ref helpers
func MkRef(id, off Term) Term { return App(SRef, "mkref", id, off) }
func Rid(r Term) Term         { return App(SInt, "rid", r) }
func Roff(r Term) Term        { return App(SInt, "roff", r) }

var NullRef = Term{"(mkref 0 0)", SRef}

func RefAdd(r Term, off Term) Term {
	if off.S == "0" {
		return r
	}
	// fold (mkref id c1) + c2
	if strings.HasPrefix(r.S, "(mkref ") {
		if i := strings.LastIndexByte(r.S, ' '); i > 0 {
			if c1, ok := new(big.Int).SetString(r.S[i+1:len(r.S)-1], 10); ok {
				if c2, ok := new(big.Int).SetString(off.S, 10); ok {
					return Term{r.S[:i+1] + new(big.Int).Add(c1, c2).String() + ")", SRef}
				}
			}
		}
	}
	return MkRef(Rid(r), Add(Roff(r), off))
}

func MkSlice(base, ln, cp Term) Term { return App(SSlice, "mkslice", base, ln, cp) }
func SBase(s Term) Term              { return App(SRef, "sbase", s) }
func SLen(s Term) Term               { return App(SInt, "slen", s) }
func SCap(s Term) Term               { return App(SInt, "scap", s) }

// ElemAddr is the address of element idx (elements of k slots each) in a
// contiguous region starting at base. Symbolic indices go through the
// uninterpreted-with-axiom function eaddr so that quantifier patterns over
// element reads contain no arithmetic.
func ElemAddr(base Term, idx Term, k int64) Term {
	if c, ok := constIntOf(idx); ok && c.IsInt64() {
		return RefAdd(base, IntLit(c.Int64()*k))
	}
	return App(SRef, "eaddr", base, idx, IntLit(k))
}

var NilSlice = Term{"(mkslice (mkref 0 0) 0 0)", SSlice}

func MkIface(tag, ref Term) Term { return App(SIface, "mkiface", tag, ref) }
func ITag(i Term) Term           { return App(SInt, "itag", i) }
func IRefOf(i Term) Term         { return App(SRef, "iref", i) }

var NilIface = Term{"(mkiface 0 (mkref 0 0))", SIface}

const smtPrelude = `(declare-datatypes ((Ref 0)) (((mkref (rid Int) (roff Int)))))
(declare-datatypes ((Slice 0)) (((mkslice (sbase Ref) (slen Int) (scap Int)))))
(declare-datatypes ((Iface 0)) (((mkiface (itag Int) (iref Ref)))))
(declare-sort Str 0)
(declare-sort Func 0)
(declare-fun strlen (Str) Int)
(declare-fun dyn (Ref) Int)
(declare-fun otype (Int) Int)
(declare-fun eaddr (Ref Int Int) Ref)
(assert (forall ((b Ref) (i Int) (k Int)) (! (= (eaddr b i k) (mkref (rid b) (+ (roff b) (* i k)))) :pattern ((eaddr b i k)))))
`

func pow2(n int) *big.Int { return new(big.Int).Lsh(big.NewInt(1), uint(n)) }

func sanitize(s string) string {
	var sb strings.Builder
	for _, c := range s {
		switch {
		case c >= 'a' && c <= 'z', c >= 'A' && c <= 'Z', c >= '0' && c <= '9', c == '_', c == '.', c == '!', c == '$':
			sb.WriteRune(c)
		default:
			sb.WriteByte('_')
		}
	}
	return sb.String()
}
