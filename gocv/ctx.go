package main

import (
	"fmt"
	"go/token"
	"go/types"
	"os"
	"path/filepath"
	"sort"
	"strings"

	"golang.org/x/tools/go/packages"
	"golang.org/x/tools/go/ssa"
	"golang.org/x/tools/go/ssa/ssautil"
)

const contractFileName = "zz_contracts_verif.go"

type Ctx struct {
	firstIter bool // encode loops without havoc, cut at back edges (under-approximation)
	unroll    int  // with firstIter: number of copies of each loop body (1 = leave every loop before completing an iteration)
	repo           string
	prog           *ssa.Program
	pkgs           []*packages.Package
	typePkgs       []*types.Package
	byPath         map[string]*packages.Package
	spkg           map[string]*ssa.Package
	contracts      map[string]*FuncContract
	ifaceContracts map[string]*FuncContract
	all            []*FuncContract
	pures          map[string]*PureFunc
	ghosts         map[string]*GhostFunc
	ghostVars      map[string]*GhostVar
	globalFacts    map[string][]Clause // package path -> assumed global facts
	opaque         map[string]bool
	closures       map[string]*closureInfo
	ranges         map[*ssa.Range]*rangeState
	globals        map[*types.Var]int
	files          []*ContractFile
	loadErrors     []string
	implCache      map[string][]implCand
}

func token2cmp(isMin bool) token.Token {
	if isMin {
		return token.LSS
	}
	return token.GTR
}

func (c *Ctx) globalID(v *types.Var) int {
	if id, ok := c.globals[v]; ok {
		return id
	}
	id := len(c.globals) + 1
	c.globals[v] = id
	return id
}

func (c *Ctx) typesPkg(path string) *types.Package {
	if p, ok := c.byPath[path]; ok {
		return p.Types
	}
	for _, tp := range c.typePkgs {
		if tp.Path() == path {
			return tp
		}
	}
	return nil
}

func (c *Ctx) contractFor(pkgPath, name string) *FuncContract {
	return c.contracts[pkgPath+"."+name]
}

type implCand struct {
	fn   *ssa.Function
	recv types.Type // concrete receiver type as it appears in interface values (T or *T)
}

// implementations lists in-repo concrete types (of loaded packages) whose method set contains
// every method of the interface, with the function for the requested method. Generic types are
// matched by method names (their instantiations share a runtime tag in this model).
func (c *Ctx) implementations(iface *types.Interface, method string) []implCand {
	key := fmt.Sprintf("%p/%s", iface, method)
	if r, ok := c.implCache[key]; ok {
		return r
	}
	var out []implCand
	var paths []string
	for p := range c.byPath {
		paths = append(paths, p)
	}
	sort.Strings(paths)
	for _, pth := range paths {
		pkg := c.byPath[pth]
		scope := pkg.Types.Scope()
		for _, name := range scope.Names() {
			tn, ok := scope.Lookup(name).(*types.TypeName)
			if !ok || tn.IsAlias() {
				continue
			}
			named, ok := tn.Type().(*types.Named)
			if !ok {
				continue
			}
			if _, isI := U(named).(*types.Interface); isI {
				continue
			}
			ptrRecv := map[string]bool{}
			have := map[string]*types.Func{}
			for i := 0; i < named.NumMethods(); i++ {
				m := named.Method(i)
				have[m.Name()] = m
				if sig, ok := m.Type().(*types.Signature); ok && sig.Recv() != nil {
					if _, isP := sig.Recv().Type().(*types.Pointer); isP {
						ptrRecv[m.Name()] = true
					}
				}
			}
			all := iface.NumMethods() > 0
			anyPtr := false
			for i := 0; i < iface.NumMethods(); i++ {
				im := iface.Method(i)
				hm := have[im.Name()]
				if hm == nil || (!im.Exported() && im.Pkg() != hm.Pkg()) {
					all = false
					break
				}
				if ptrRecv[im.Name()] {
					anyPtr = true
				}
			}
			if !all {
				continue
			}
			fn := c.prog.FuncValue(have[method])
			if fn == nil {
				continue
			}
			var recv types.Type = named
			if anyPtr {
				recv = types.NewPointer(named)
			}
			out = append(out, implCand{fn: fn, recv: recv})
		}
	}
	c.implCache[key] = out
	return out
}

// ghostKey resolves a ghost variable name used in a contract of package pkgPath; "name" is
// local, "pkg.name" refers to the ghost variable of the loaded package with that name.
func (c *Ctx) ghostKey(pkgPath, name string) string {
	if pk, n, ok := strings.Cut(name, "."); ok {
		for key, gv := range c.ghostVars {
			if gv.Name == n && (strings.HasSuffix(gv.PkgPath, "/"+pk) || gv.PkgPath == pk) {
				return key
			}
		}
	}
	return pkgPath + "::" + name
}

// splitExternKey splits "path/to/pkg.(*T).M" into package path and relative name.
func splitExternKey(key string) (string, string) {
	slash := strings.LastIndex(key, "/")
	dot := strings.Index(key[slash+1:], ".")
	if dot < 0 {
		return key, ""
	}
	return key[:slash+1+dot], key[slash+1+dot+1:]
}

// funcFor finds the SSA function a contract is attached to.
func (c *Ctx) funcFor(fc *FuncContract) *ssa.Function {
	pkgPath, key := fc.PkgPath, fc.Key
	if fc.Kind == "extern" {
		pkgPath, key = splitExternKey(fc.Key)
	}
	sp := c.spkg[pkgPath]
	if sp == nil {
		return nil
	}
	if strings.HasPrefix(key, "(") {
		// (*T).M or (T).M
		end := strings.Index(key, ")")
		if end < 0 || end+2 > len(key) {
			return nil
		}
		tn := strings.TrimPrefix(key[1:end], "*")
		m := key[end+2:]
		anon := ""
		if i := strings.Index(m, "$"); i >= 0 {
			anon = m[i:]
			m = m[:i]
		}
		obj := sp.Pkg.Scope().Lookup(tn)
		if obj == nil {
			return nil
		}
		named, ok := obj.Type().(*types.Named)
		if !ok {
			return nil
		}
		for i := 0; i < named.NumMethods(); i++ {
			if named.Method(i).Name() == m {
				f := c.prog.FuncValue(named.Method(i))
				if f == nil || anon == "" {
					return f
				}
				for _, af := range f.AnonFuncs {
					if strings.HasSuffix(af.Name(), anon) {
						return af
					}
				}
				return nil
			}
		}
		return nil
	}
	if strings.Contains(key, "$") {
		// anonymous function: outer$1
		outer, rest, _ := strings.Cut(key, "$")
		f := sp.Func(outer)
		if f == nil {
			return nil
		}
		for _, af := range f.AnonFuncs {
			if af.Name() == outer+"$"+rest {
				return af
			}
		}
		return nil
	}
	return sp.Func(key)
}

// Load loads the packages matching patterns (plus their contract files).
// overlayFiles maps real file paths to replacement files (selftest: mutated sources
// without touching the repository).
var overlayFiles = map[string]string{}

func Load(repo string, patterns []string) (*Ctx, error) {
	ov := map[string][]byte{}
	for real, repl := range overlayFiles {
		b, err := os.ReadFile(repl)
		if err != nil {
			return nil, err
		}
		ov[real] = b
	}
	cfg := &packages.Config{Overlay: ov,Mode: packages.LoadSyntax, Dir: repo, BuildFlags: []string{"-tags=verif"},
		Env: append(os.Environ(), "GOFLAGS=-mod=mod", "GOPROXY=off", "GOSUMDB=off", "GOTOOLCHAIN=local",
			"PATH=/opt/veriftools/go1.26.8/bin:"+os.Getenv("PATH"))}
	pkgs, err := packages.Load(cfg, patterns...)
	if err != nil {
		return nil, err
	}
	ctx := &Ctx{repo: repo, byPath: map[string]*packages.Package{}, spkg: map[string]*ssa.Package{}, contracts: map[string]*FuncContract{},
		ifaceContracts: map[string]*FuncContract{}, pures: map[string]*PureFunc{}, ghosts: map[string]*GhostFunc{}, ghostVars: map[string]*GhostVar{}, globalFacts: map[string][]Clause{}, opaque: map[string]bool{}, closures: map[string]*closureInfo{},
		ranges: map[*ssa.Range]*rangeState{}, globals: map[*types.Var]int{}, implCache: map[string][]implCand{}}
	for _, p := range pkgs {
		for _, e := range p.Errors {
			ctx.loadErrors = append(ctx.loadErrors, e.Error())
		}
	}
	if len(ctx.loadErrors) > 0 {
		return ctx, fmt.Errorf("package load errors: %s", strings.Join(ctx.loadErrors, "; "))
	}
	prog, spkgs := ssautil.Packages(pkgs, ssa.GlobalDebug|ssa.BareInits)
	_ = spkgs
	prog.Build()
	ctx.prog = prog
	ctx.pkgs = pkgs
	for _, p := range pkgs {
		if p.Types != nil {
			ctx.byPath[p.PkgPath] = p
		}
	}
	for _, sp := range prog.AllPackages() {
		ctx.typePkgs = append(ctx.typePkgs, sp.Pkg)
		ctx.spkg[sp.Pkg.Path()] = sp
	}
	sort.Slice(ctx.typePkgs, func(i, j int) bool { return ctx.typePkgs[i].Path() < ctx.typePkgs[j].Path() })
	// contract files of every loaded in-repo package
	for _, p := range ctx.byPath {
		if len(p.GoFiles) == 0 {
			continue
		}
		dir := filepath.Dir(p.GoFiles[0])
		if !strings.HasPrefix(dir, repo) {
			continue
		}
		path := filepath.Join(dir, contractFileName)
		if _, err := os.Stat(path); err != nil {
			continue
		}
		cf, err := ParseContractFile(path, p.PkgPath)
		if err != nil {
			return ctx, err
		}
		ctx.files = append(ctx.files, cf)
	}
	sort.Slice(ctx.files, func(i, j int) bool { return ctx.files[i].Path < ctx.files[j].Path })
	for _, cf := range ctx.files {
		for _, o := range cf.Opaque {
			if a, b, ok := strings.Cut(o, " like "); ok {
				opaqueLike[strings.TrimSpace(a)] = strings.TrimSpace(b)
				ctx.opaque[strings.TrimSpace(b)] = true
				continue
			}
			ctx.opaque[o] = true
		}
		ctx.globalFacts[cf.PkgPath] = append(ctx.globalFacts[cf.PkgPath], cf.Globals...)
		for _, gv := range cf.GhostVars {
			ctx.ghostVars[cf.PkgPath+"::"+gv.Name] = gv
		}
		for _, gf := range cf.Ghosts {
			ctx.ghosts[cf.PkgPath+"."+gf.Name] = gf
		}
		for _, pf := range cf.Pures {
			ctx.pures[cf.PkgPath+"."+pf.Name] = pf
		}
		for _, fc := range cf.Funcs {
			ctx.all = append(ctx.all, fc)
			switch fc.Kind {
			case "extern":
				// assumed contracts are scoped to the package whose contract file states them
				if prev := ctx.contracts[fc.PkgPath+"=>"+fc.Key]; prev != nil {
					cf.Errors = append(cf.Errors, fmt.Sprintf("%s: %s is declared twice in this contract file (the later declaration would silently replace the earlier one)", cf.Path, fc.Key))
				}
				ctx.contracts[fc.PkgPath+"=>"+fc.Key] = fc
				ctx.ifaceContracts[fc.PkgPath+"=>"+fc.Key] = fc
			case "func":
				if strings.HasPrefix(fc.Key, "(") {
					end := strings.Index(fc.Key, ")")
					tn := strings.TrimPrefix(fc.Key[1:end], "*")
					if sp := ctx.spkg[fc.PkgPath]; sp != nil {
						if obj := sp.Pkg.Scope().Lookup(tn); obj != nil {
							if _, isIface := U(obj.Type()).(*types.Interface); isIface {
								ctx.ifaceContracts[fc.PkgPath+"."+tn+"."+fc.Key[end+2:]] = fc
								fc.IsIface = true
								continue
							}
						}
					}
				}
				if prev := ctx.contracts[fc.PkgPath+"."+fc.Key]; prev != nil {
					cf.Errors = append(cf.Errors, fmt.Sprintf("%s: %s is declared twice in this contract file (the later declaration would silently replace the earlier one)", cf.Path, fc.Key))
				}
				ctx.contracts[fc.PkgPath+"."+fc.Key] = fc
			}
		}
	}
	// call-log ghost variables
	for _, fc := range ctx.all {
		if !fc.Logged {
			continue
		}
		var sig *types.Signature
		name := ""
		if fn := ctx.funcFor(fc); fn != nil {
			sig = fn.Signature
			name = fn.Name()
		} else if fc.Kind == "func" && strings.HasPrefix(fc.Key, "(") {
			end := strings.Index(fc.Key, ")")
			tn := strings.TrimPrefix(fc.Key[1:end], "*")
			if tp := ctx.typesPkg(fc.PkgPath); tp != nil && end+2 <= len(fc.Key) {
				if obj := tp.Scope().Lookup(tn); obj != nil {
					if it, ok := U(obj.Type()).(*types.Interface); ok {
						for k := 0; k < it.NumMethods(); k++ {
							if it.Method(k).Name() == fc.Key[end+2:] {
								sig = it.Method(k).Type().(*types.Signature)
								name = it.Method(k).Name()
							}
						}
					}
				}
			}
		} else if fc.Kind == "extern" {
			// interface method: pkg.Iface.Method
			if i := strings.LastIndex(fc.Key, "."); i > 0 {
				pkgPath, tn := splitExternKey(fc.Key[:i])
				if tp := ctx.typesPkg(pkgPath); tp != nil {
					if obj := tp.Scope().Lookup(tn); obj != nil {
						if it, ok := U(obj.Type()).(*types.Interface); ok {
							for k := 0; k < it.NumMethods(); k++ {
								if it.Method(k).Name() == fc.Key[i+1:] {
									sig = it.Method(k).Type().(*types.Signature)
									name = it.Method(k).Name()
								}
							}
						}
					}
				}
			}
		}
		if sig == nil {
			fc.Errors = append(fc.Errors, "logged: function not found")
			continue
		}
		if fc.LogName == "" {
			fc.LogName = name
		}
		ctx.ghostVars[fc.PkgPath+"::calls_"+fc.LogName] = &GhostVar{Name: "calls_" + fc.LogName, Type: "mathint", PkgPath: fc.PkgPath, Math: true}
		for i := 0; i < sig.Params().Len(); i++ {
			p := sig.Params().At(i)
			if p.Name() == "" || p.Name() == "_" {
				continue
			}
			if _, isTP := types.Unalias(p.Type()).(*types.TypeParam); isTP {
				continue
			}
			n := "arg_" + fc.LogName + "_" + p.Name()
			ctx.ghostVars[fc.PkgPath+"::"+n] = &GhostVar{Name: n, PkgPath: fc.PkgPath, Ty: p.Type()}
		}
	}
	return ctx, nil
}
