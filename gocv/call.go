package main

import (
	"go/token"
	"fmt"
	"go/types"
	"sort"
	"strings"

	"golang.org/x/tools/go/ssa"
)

type closureInfo struct {
	fn    *ssa.Function
	binds []Term
}


// funcKey is the contract key of an SSA function: "<pkgpath>.<RelName>" with type
// arguments stripped, e.g. "github.com/x/y.(*T).M".
func funcKey(fn *ssa.Function) string {
	if o := fn.Origin(); o != nil {
		fn = o
	}
	if fn.Pkg == nil {
		// methods of instantiated/external types, wrappers...
		if fn.Object() != nil && fn.Object().Pkg() != nil {
			return fn.Object().Pkg().Path() + "." + stripTypeArgs(fn.RelString(fn.Object().Pkg()))
		}
		return stripTypeArgs(fn.String())
	}
	return fn.Pkg.Pkg.Path() + "." + stripTypeArgs(fn.RelString(fn.Pkg.Pkg))
}

var effectFreePrefixes = []string{
	"go.uber.org/zap", "fmt.Errorf", "fmt.Sprintf", "fmt.Sprint", "fmt.Sprintln", "errors.New", "time.Now", "time.Since",
	"github.com/NethermindEth/juno/utils.(*ZapLogger)", "github.com/NethermindEth/juno/utils/log",
	"(*sync.Mutex).", "(*sync.RWMutex).", "sync.(*Mutex).", "sync.(*RWMutex).", "log.", "(time.Time).", "time.(Time).", "(time.Duration).",
	"errors.Join", "errors.Unwrap", "errors.As", "strconv.Itoa", "strconv.FormatUint", "strconv.FormatInt", "encoding/hex.EncodeToString", "runtime.", "context.",
}

func isEffectFree(key string) bool {
	for _, p := range effectFreePrefixes {
		if strings.HasPrefix(key, p) {
			return true
		}
	}
	for _, sfx := range []string{".String", ".ShortString", ".Error", ".GoString"} {
		if strings.HasSuffix(key, sfx) {
			return true
		}
	}
	// logging / metrics interfaces
	if i := strings.LastIndex(key, "."); i > 0 {
		recv := key[:i]
		for _, w := range []string{"Logger", "logger", "Listener", "listener", "Reporter", "Metrics"} {
			if strings.Contains(recv, w) {
				return true
			}
		}
	}
	return false
}

func nonNilResult(key string) bool {
	switch {
	case strings.HasPrefix(key, "fmt.Errorf"), strings.HasPrefix(key, "errors.New"):
		return true
	}
	return false
}

// call handles Call / Defer instructions. v is the value to define (nil for defers / calls without use).
func (fr *Frame) call(st *State, v ssa.Value, cc *ssa.CallCommon, in ssa.Instruction) error {
	vc := fr.vc
	var args []Term
	for _, a := range cc.Args {
		t, err := fr.value(a)
		if err != nil {
			return fr.unsupportedErr(in, err)
		}
		args = append(args, t)
	}
	setResults := func(rs []Term) {
		if v == nil {
			return
		}
		if tup, ok := v.Type().(*types.Tuple); ok {
			if tup.Len() == len(rs) {
				fr.tuples[v] = rs
			}
			return
		}
		if len(rs) == 1 {
			fr.vals[v] = rs[0]
		}
	}
	resultTypes := func() []types.Type {
		var out []types.Type
		res := cc.Signature().Results()
		for i := 0; i < res.Len(); i++ {
			out = append(out, res.At(i).Type())
		}
		return out
	}
	freshResults := func(st *State, nonNil bool) ([]Term, error) {
		var rs []Term
		vc.nondet = true
		for i, rt := range resultTypes() {
			srt, err := vc.tt.SortOf(rt)
			if err != nil {
				return nil, err
			}
			f := vc.Fresh(fmt.Sprintf("ret%d", i), srt)
			if !(nonNil && srt == SIface) {
				st.assume(vc.rangeAssumption(f, rt, st.alloc))
			}
			if nonNil && srt == SIface {
				// a freshly created error value: non-nil and distinct from every existing one
				st.assume(Neq(ITag(f), IntLit(0)))
				st.assume(Ge(Rid(IRefOf(f)), st.alloc))
				st.alloc = vc.Define("alloc", Add(st.alloc, IntLit(1)))
			}
			rs = append(rs, f)
		}
		return rs, nil
	}
	unmodelled := func(why string) error {
		vc.note("%s: unmodelled call %s: %s", fr.pos(in.Pos()), cc.String(), why)
		st.taint = True
		vc.havocAll(st)
		rs, err := freshResults(st, false)
		if err != nil {
			return fr.unsupportedErr(in, err)
		}
		setResults(rs)
		return nil
	}

	fr.callSiteChecks(st, cc, args, in)
	if cc.IsInvoke() {
		recv, err := fr.value(cc.Value)
		if err != nil {
			return fr.unsupportedErr(in, err)
		}
		if tp, ok := types.Unalias(cc.Value.Type()).(*types.TypeParam); ok {
			// a constraint method on a value of type-parameter type: a pure, deterministic,
			// otherwise unknown function of its arguments (holds for every instantiation
			// whose method is a pure function; recorded as an assumption)
			res := cc.Signature().Results()
			if res.Len() == 1 {
				rs, err := vc.tt.SortOf(res.At(0).Type())
				if err == nil {
					name := "tpm!" + sanitize(tp.Obj().Name()+"."+cc.Method.Name())
					sorts := []Sort{recv.Sort}
					all := []Term{recv}
					for _, a := range args {
						sorts = append(sorts, a.Sort)
						all = append(all, a)
					}
					vc.DeclareFun(name, sorts, rs)
					vc.assume("method " + cc.Method.Name() + " of type parameter " + tp.Obj().Name() + " is a pure deterministic function")
					setResults([]Term{App(rs, name, all...)})
					return nil
				}
			}
		}
		key := stripTypeArgs(typeKey(cc.Value.Type())) + "." + cc.Method.Name()
		if c := vc.ifaceContractFor(key); c != nil {
			sig := cc.Method.Type().(*types.Signature)
			rs, err := fr.applyContract(st, c, key, sig, cc.Value.Type(), append([]Term{recv}, args...), in)
			if err != nil {
				return err
			}
			setResults(rs)
			return nil
		}
		short := cc.Method.Name()
		if short == "Error" || short == "String" || isEffectFree(key) {
			rs, err := freshResults(st, false)
			if err != nil {
				return fr.unsupportedErr(in, err)
			}
			setResults(rs)
			return nil
		}
		if it, ok := U(cc.Value.Type()).(*types.Interface); ok {
			if cands := vc.ctx.implementations(it, short); len(cands) > 0 && len(cands) <= 12 {
				return fr.devirtualize(st, cands, recv, args, cc, in, setResults, freshResults)
			}
		}
		return unmodelled("interface method without contract: " + key)
	}

	switch callee := cc.Value.(type) {
	case *ssa.Builtin:
		rs, err := fr.builtin(st, callee, cc, args, in)
		if err != nil {
			return unmodelled(err.Error())
		}
		setResults(rs)
		return nil
	case *ssa.Function:
		return fr.staticCall(st, callee, nil, args, in, setResults, freshResults, unmodelled)
	case *ssa.MakeClosure:
		fn := callee.Fn.(*ssa.Function)
		var binds []Term
		for _, b := range callee.Bindings {
			t, err := fr.value(b)
			if err != nil {
				return fr.unsupportedErr(in, err)
			}
			binds = append(binds, t)
		}
		return fr.staticCall(st, fn, binds, args, in, setResults, freshResults, unmodelled)
	default:
		// a local function variable that holds one closure for its whole life (addResponse := func...
		// captured by a sibling closure, hence a heap cell): the call is a call of that closure
		if mc := singleStoredClosure(cc.Value); mc != nil {
			fn := mc.Fn.(*ssa.Function)
			var binds []Term
			okb := true
			for _, b := range mc.Bindings {
				t, err := fr.value(b)
				if err != nil {
					okb = false
					break
				}
				binds = append(binds, t)
			}
			if okb {
				return fr.staticCall(st, fn, binds, args, in, setResults, freshResults, unmodelled)
			}
		}
		ft, err := fr.value(cc.Value)
		if err == nil {
			if ci, ok := vc.ctx.closures[ft.S]; ok {
				return fr.staticCall(st, ci.fn, ci.binds, args, in, setResults, freshResults, unmodelled)
			}
		}
		// range-over-func: it(yield) where yield is the compiler's synthetic loop-body closure
		if err == nil && len(cc.Args) == 1 {
			if mc, ok := cc.Args[0].(*ssa.MakeClosure); ok {
				if yf, ok := mc.Fn.(*ssa.Function); ok && yf.Synthetic == "range-over-func yield" {
					if rerr := fr.rangeOverFunc(st, ft, mc, yf, in); rerr != nil {
						return unmodelled("range-over-func: " + rerr.Error())
					}
					return nil
				}
			}
		}
		pn, ok := callbackName(cc.Value)
		if !ok && fr.depth == 0 && fr.contract != nil {
			if fn, fok := fieldCallbackName(cc.Value); fok && fr.contract.PureCallbacks[fn] {
				pn, ok = fn, true
			}
		}
		if ok && fr.depth == 0 {
			// a callback passed in by the caller: it may do anything to the heap (an input of the
			// function, not an unknown of the analysis); its calls and its last result are logged
			if fr.contract != nil && fr.contract.PureCallbacks[pn] {
				vc.assume("callback parameter " + pn + " has no effect on the heap (purecallback)")
			} else {
				vc.note("%s: callback parameter %s: arbitrary effect on the heap, calls logged", fr.pos(in.Pos()), pn)
				vc.havocAll(st)
			}
			rs, err := freshResults(st, false)
			if err != nil {
				return fr.unsupportedErr(in, err)
			}
			if fr.contract != nil && fr.contract.PureCallbacks[pn] && len(rs) == 1 {
				// a pure callback is a function: of its arguments, and of what its pointer
				// arguments point to (cbapp(f, ...) in specifications)
				if ft, ferr := fr.value(cc.Value); ferr == nil && ft.Sort == SFunc {
					if app, ok := vc.pureCallbackApp(st, ft, cc.Args, args, rs[0].Sort); ok {
						st.assume(Eq(rs[0], app))
						vc.assume("callback parameter " + pn + " is a deterministic function of its arguments and of the values its pointer arguments point to")
					}
				}
			}
			ck := "fncalls!" + pn
			cur, ok := st.ghost[ck]
			if !ok {
				cur = vc.fnCallsInit(pn)
			}
			st.ghost[ck] = vc.Define("fncalls", Add(cur, IntLit(1)))
			if len(rs) == 1 {
				st.ghost["fnret!"+pn] = rs[0]
			}
			setResults(rs)
			return nil
		}
		// A call through some other function value (a closure returned by a callee, a field): the
		// callee is unknown, so it may do anything to the heap and to ghost state that calls can
		// change - nothing is kept, not even the cells of captured variables (the unknown function
		// may be a sibling closure) - and its results are unconstrained. An over-approximation:
		// what is proved holds whatever the function does (termination and panics aside, §4).
		if ft, ferr := fr.value(cc.Value); ferr == nil && vc.effectFreeFuncs[ft.S] {
			// a function value that a (trusted) contract declared effect-free: effectfree(result)
			vc.assume("function values declared effectfree() by an assumed contract have no effect on the heap")
			rs, err := freshResults(st, false)
			if err != nil {
				return fr.unsupportedErr(in, err)
			}
			setResults(rs)
			return nil
		}
		vc.note("%s: call through a function value: arbitrary effect on the heap, results unconstrained", fr.pos(in.Pos()))
		vc.havocAllLoop(st)
		for _, k := range sortedKeys(vc.ctx.ghostVars) {
			if gv := vc.ctx.ghostVars[k]; gv.PkgPath == vc.rootPkg() {
				vc.havocGhostVar(st, gv)
			}
		}
		rs, err := freshResults(st, false)
		if err != nil {
			return fr.unsupportedErr(in, err)
		}
		setResults(rs)
		return nil
	}
}

func (fr *Frame) staticCall(st *State, fn *ssa.Function, binds []Term, args []Term, in ssa.Instruction,
	setResults func([]Term), freshResults func(*State, bool) ([]Term, error), unmodelled func(string) error) error {
	vc := fr.vc
	key := funcKey(fn)
	c := vc.contractFor(key)
	if c == nil {
		if handled, err := fr.mapsBuiltin(st, fn, args, in, setResults); handled {
			return err
		}
	}
	if c != nil && !c.Inline && len(binds) == 0 {
		var recvT types.Type
		if fn.Signature.Recv() != nil {
			recvT = fn.Signature.Recv().Type()
		}
		rs, err := fr.applyContract(st, c, key, fn.Signature, recvT, args, in)
		if err != nil {
			return err
		}
		setResults(rs)
		return nil
	}
	if isEffectFree(key) {
		rs, err := freshResults(st, nonNilResult(key))
		if err != nil {
			return fr.unsupportedErr(in, err)
		}
		setResults(rs)
		return nil
	}
	if fn.Blocks == nil {
		return unmodelled("no body and no contract: " + key)
	}
	if fr.depth >= maxInlineDepth {
		return unmodelled("inline depth exceeded: " + key)
	}
	for _, s := range fr.stack {
		if s == fn {
			return unmodelled("recursive call: " + key)
		}
	}
	rs, err := fr.inline(st, fn, c, binds, args, in)
	if err != nil {
		return unmodelled("cannot inline " + key + ": " + err.Error())
	}
	setResults(rs)
	return nil
}

// mapsBuiltin: exact models of maps.Clone and maps.Copy (their bodies live in the runtime).
// Clone: nil for nil, otherwise a new map object with the same keys and the same values (a shallow
// copy: values that are themselves references are shared). Copy: every entry of src is put into dst.
func (fr *Frame) mapsBuiltin(st *State, fn *ssa.Function, args []Term, in ssa.Instruction, setResults func([]Term)) (bool, error) {
	vc := fr.vc
	org := fn
	if o := fn.Origin(); o != nil {
		org = o
	}
	if org.Pkg != nil && org.Pkg.Pkg.Path() == "slices" && org.Name() == "Clone" && len(args) == 1 && fn.Signature.Params().Len() == 1 {
		// slices.Clone(s) = append(s[:0:0], s...): nil for nil (and for an empty slice a zero-capacity
		// slice), otherwise a fresh backing array holding a copy of the elements (shallow)
		pt := fn.Signature.Params().At(0).Type()
		sl, ok := U(pt).(*types.Slice)
		if !ok {
			if c := coreOf(pt); c != nil {
				sl, ok = U(c).(*types.Slice)
			}
		}
		if !ok {
			return false, nil
		}
		s0 := args[0]
		if s0.Sort != SSlice {
			return false, nil
		}
		base := vc.allocObject(st, nil)
		vc.copyRange(st, sl.Elem(), base, SBase(s0), SLen(s0))
		cp := vc.Fresh("clonecap", SInt)
		st.assume(And(Ge(cp, SLen(s0)), Lt(cp, IntLitBig(pow2(62)))))
		res := vc.Define("sliceclone", Ite(Eq(SLen(s0), IntLit(0)), MkSlice(MkRef(IntLit(0), IntLit(0)), IntLit(0), IntLit(0)), MkSlice(base, SLen(s0), cp)))
		setResults([]Term{res})
		return true, nil
	}
	if org.Pkg == nil || org.Pkg.Pkg.Path() != "maps" || (org.Name() != "Clone" && org.Name() != "Copy") {
		return false, nil
	}
	mapOf := func(i int) (*types.Map, bool) {
		if i >= fn.Signature.Params().Len() {
			return nil, false
		}
		mt, ok := U(fn.Signature.Params().At(i).Type()).(*types.Map)
		return mt, ok
	}
	switch org.Name() {
	case "Clone":
		mt, ok := mapOf(0)
		if !ok || len(args) != 1 {
			return false, nil
		}
		ks, err1 := vc.tt.SortOf(mt.Key())
		vs, err2 := vc.tt.SortOf(mt.Elem())
		if err1 != nil || err2 != nil {
			return false, nil
		}
		m := args[0]
		r := vc.allocObject(st, nil)
		domH := vc.mapHeap(st, "dom", ks, vs)
		valH := vc.mapHeap(st, "val", ks, vs)
		lenH := vc.mapHeap(st, "len", "", "")
		vc.setMapHeap(st, "dom", ks, vs, Store(domH, Rid(r), Select(domH, Rid(m))))
		vc.setMapHeap(st, "val", ks, vs, Store(valH, Rid(r), Select(valH, Rid(m))))
		vc.setMapHeap(st, "len", "", "", Store(lenH, Rid(r), Select(lenH, Rid(m))))
		res := vc.Define("mapclone", Ite(Eq(Rid(m), IntLit(0)), m, r))
		setResults([]Term{res})
		return true, nil
	case "Copy":
		dt, ok1 := mapOf(0)
		_, ok2 := mapOf(1)
		if !ok1 || !ok2 || len(args) != 2 {
			return false, nil
		}
		ks, err1 := vc.tt.SortOf(dt.Key())
		vs, err2 := vc.tt.SortOf(dt.Elem())
		if err1 != nil || err2 != nil {
			return false, nil
		}
		dst, src := args[0], args[1]
		domH := vc.mapHeap(st, "dom", ks, vs)
		valH := vc.mapHeap(st, "val", ks, vs)
		lenH := vc.mapHeap(st, "len", "", "")
		srcDom, srcVal := Select(domH, Rid(src)), Select(valH, Rid(src))
		dstDom, dstVal := Select(domH, Rid(dst)), Select(valH, Rid(dst))
		// writing into a nil map panics as soon as src has an entry
		fr.safe(st, "nilmap", Or(Neq(Rid(dst), IntLit(0)), Eq(Select(lenH, Rid(src)), IntLit(0)), Eq(Rid(src), IntLit(0))), in, "maps.Copy into a nil map")
		kq := Term{"q!k", ks}
		nd := Term{fmt.Sprintf("(lambda ((q!k %s)) (or (select %s q!k) (select %s q!k)))", ks, dstDom.S, srcDom.S), SArray(ks, SBool)}
		nv := Term{fmt.Sprintf("(lambda ((q!k %s)) (ite (select %s q!k) (select %s q!k) (select %s q!k)))", ks, srcDom.S, srcVal.S, dstVal.S), SArray(ks, vs)}
		_ = kq
		newDom := vc.Define("mapcopydom", nd)
		newVal := vc.Define("mapcopyval", nv)
		nl := vc.Fresh("mapcopylen", SInt)
		st.assume(And(Ge(nl, Select(lenH, Rid(dst))), Ge(nl, Select(lenH, Rid(src)))))
		live := Neq(Rid(src), IntLit(0))
		vc.setMapHeap(st, "dom", ks, vs, Ite(live, Store(domH, Rid(dst), newDom), domH))
		vc.setMapHeap(st, "val", ks, vs, Ite(live, Store(valH, Rid(dst), newVal), valH))
		vc.setMapHeap(st, "len", "", "", Ite(live, Store(lenH, Rid(dst), nl), lenH))
		setResults(nil)
		return true, nil
	}
	return false, nil
}

// callSiteChecks emits the call-site assertions of the enclosing contract.
func (fr *Frame) callSiteChecks(st *State, cc *ssa.CallCommon, args []Term, in ssa.Instruction) {
	vc := fr.vc
	// Calls made by an inlined callee (a helper without a contract of its own) are calls of the
	// function under contract: its `@*` call-site clauses apply to them too, with the root
	// function's parameters in scope. Without this, moving a call into a helper would make
	// the clause silently vanish.
	contract := fr.contract
	nested := false
	if fr.depth > 0 && vc.rootFr != nil && vc.rootFr.contract != nil && (contract == nil || len(contract.CallSites) == 0) {
		contract = vc.rootFr.contract
		nested = true
	}
	if contract == nil || len(contract.CallSites) == 0 {
		return
	}
	var name string
	var sig *types.Signature
	var recvT types.Type
	var all []Term
	if cc.IsInvoke() {
		name = cc.Method.Name()
		sig = cc.Method.Type().(*types.Signature)
		recvT = cc.Value.Type()
		rv, err := fr.value(cc.Value)
		if err != nil {
			return
		}
		all = append([]Term{rv}, args...)
	} else {
		switch callee := cc.Value.(type) {
		case *ssa.Function:
			name = callee.Name()
			if o := callee.Origin(); o != nil {
				name = o.Name() // an instance of a generic function is addressed by the function's name
			}
			sig = callee.Signature
			if sig.Recv() != nil {
				recvT = sig.Recv().Type()
			}
		case *ssa.MakeClosure:
			name = callee.Fn.Name()
			sig = callee.Fn.(*ssa.Function).Signature
		case *ssa.Builtin:
			return
		default:
			// a call through a function-typed parameter or captured variable (a callback):
			// addressed by that name
			cb, ok := callbackName(cc.Value)
			if !ok {
				return
			}
			fs, ok := U(cc.Value.Type()).(*types.Signature)
			if !ok {
				return
			}
			name = cb
			sig = fs
		}
		all = args
	}
	// a site is addressed by the callee's name or, to tell errors.New from reflect.New, by
	// <package name>.<name>; each way of addressing counts its own ordinals
	qname := ""
	if f, ok := cc.Value.(*ssa.Function); ok && f.Pkg != nil && f.Signature.Recv() == nil {
		qname = f.Pkg.Pkg.Name() + "." + name
	} else if ok && f.Signature.Recv() != nil {
		// a method: <receiver type name>.<method>, to tell StateDiff.Merge from BloomFilter.Merge
		rt := f.Signature.Recv().Type()
		if pt, isPtr := types.Unalias(rt).(*types.Pointer); isPtr {
			rt = pt.Elem()
		}
		if nt, isNamed := types.Unalias(rt).(*types.Named); isNamed {
			qname = nt.Obj().Name() + "." + name
		}
	}
	matched, qmatched := false, false
	for _, cs := range contract.CallSites {
		if cs.Callee == name {
			matched = true
		}
		if qname != "" && cs.Callee == qname {
			qmatched = true
		}
	}
	if !matched && !qmatched {
		return
	}
	// sites reached through inlined helpers are numbered and named with the root function's own
	// sites: moving a call into a helper keeps the obligation's identity
	csPath, namer := fr.path, fr
	if nested {
		csPath, namer = "", vc.rootFr
	}
	n, qn := 0, 0
	if matched {
		n = vc.ordinal("cs:" + csPath + name)
	}
	if qmatched {
		qn = vc.ordinal("cs:" + csPath + qname)
	}
	names, tys := sigNames(sig, recvT)
	if len(names) != len(all) {
		return
	}
	for _, cs := range contract.CallSites {
		n, name := n, name
		switch {
		case matched && cs.Callee == name:
		case qmatched && cs.Callee == qname:
			n, name = qn, qname
		default:
			continue
		}
		if cs.Ord != 0 && (cs.Ord != n || nested) {
			continue
		}
		env := fr.baseEnv(st)
		if nested {
			env = vc.rootFr.baseEnv(st)
		} else {
			blk := in.Block()
			env.lookup = func(nm string) (SpecVal, bool) {
				if nm == "rangeindex" {
					// the hidden counter of the innermost `for _, x := range slice` loop around the call
					if v, ok := fr.rangeIndexAt(blk); ok {
						return v, true
					}
				}
				return fr.lookupLocal(nm, blk, st, nil)
			}
			env.lookupAddr = fr.lookupLocalAddr
		}
		for i, nm := range names {
			// positional names always; the callee's parameter name only if it does not
			// hide a parameter of the enclosing function
			env.vars[fmt.Sprintf("$%d", i)] = SpecVal{T: all[i], Ty: tys[i]}
			if _, clash := env.vars[nm]; !clash {
				env.vars[nm] = SpecVal{T: all[i], Ty: tys[i]}
			}
		}
		t, err := env.EvalBool(cs.Clause.E)
		if err != nil {
			vc.note("contract error: callsite %s@%d %s: %v", name, n, cs.Clause.Label, err)
			continue
		}
		vc.addObl(&Obligation{Name: namer.oblName("callsite", fmt.Sprintf("%s.%s@%d", name, cs.Clause.Label, n)), Kind: "callsite", Reach: st.reach, Cond: t,
			Taint: st.taint, Pos: fr.pos(in.Pos()), Descr: "at call of " + name + ": " + cs.Clause.Src})
		st.assume(t)
	}
}

// closureSiteChecks: a `callsite outer$k@n` clause whose name is a function literal of the
// function under contract is checked where that literal is turned into a function value (the
// point at which the continuation is built): $i / the captured variable's name stand for
// the values bound into the closure.
func (fr *Frame) closureSiteChecks(st *State, x *ssa.MakeClosure, fn *ssa.Function, binds []Term) {
	vc := fr.vc
	contract := fr.contract
	if contract == nil || len(contract.CallSites) == 0 || fr.depth > 0 {
		return
	}
	name := fn.Name()
	matched := false
	for _, cs := range contract.CallSites {
		if cs.Callee == name {
			matched = true
		}
	}
	if !matched {
		return
	}
	n := vc.ordinal("cs:" + fr.path + name)
	for _, cs := range contract.CallSites {
		if cs.Callee != name || (cs.Ord != 0 && cs.Ord != n) {
			continue
		}
		env := fr.baseEnv(st)
		blk := x.Block()
		env.lookup = func(nm string) (SpecVal, bool) { return fr.lookupLocal(nm, blk, st, nil) }
		env.lookupAddr = fr.lookupLocalAddr
		for i, fv := range fn.FreeVars {
			if i >= len(binds) {
				break
			}
			env.vars[fmt.Sprintf("$%d", i)] = SpecVal{T: binds[i], Ty: fv.Type()}
		}
		t, err := env.EvalBool(cs.Clause.E)
		if err != nil {
			vc.note("contract error: callsite %s@%d %s: %v", name, n, cs.Clause.Label, err)
			continue
		}
		vc.addObl(&Obligation{Name: fr.oblName("callsite", fmt.Sprintf("%s.%s@%d", name, cs.Clause.Label, n)), Kind: "callsite", Reach: st.reach, Cond: t,
			Taint: st.taint, Pos: fr.pos(x.Pos()), Descr: "where the function literal " + name + " is built: " + cs.Clause.Src})
		st.assume(t)
	}
}

func sealedInterface(it *types.Interface) bool {
	for i := 0; i < it.NumMethods(); i++ {
		if !it.Method(i).Exported() {
			return true
		}
	}
	return false
}

// devirtualize models a dynamic call by case analysis over the in-repo implementations of the
// interface (by runtime tag); any other dynamic type is an unmodelled call.
func (fr *Frame) devirtualize(st *State, cands []implCand, recv Term, args []Term, cc *ssa.CallCommon, in ssa.Instruction,
	setResults func([]Term), freshResults func(*State, bool) ([]Term, error)) error {
	vc := fr.vc
	fr.safe(st, "nil", Neq(ITag(recv), IntLit(0)), in, "method call on nil interface")
	nres := cc.Signature().Results().Len()
	var branches []*State
	var results [][]Term
	var known []Term
	for _, cand := range cands {
		tag := IntLit(int64(vc.tt.TID(cand.recv)))
		known = append(known, Eq(ITag(recv), tag))
		b := st.clone()
		b.assume(Eq(ITag(recv), tag))
		b.reach = vc.Define("reach", b.reach)
		var recvArg Term
		if _, isPtr := cand.recv.(*types.Pointer); isPtr {
			recvArg = IRefOf(recv)
			b.assume(Neq(Rid(recvArg), IntLit(0)))
		} else {
			v, err := vc.loadRaw(b, IRefOf(recv), cand.recv)
			if err != nil {
				return fr.unsupportedErr(in, err)
			}
			recvArg = v
		}
		var rs []Term
		set := func(r []Term) { rs = r }
		unm := func(why string) error {
			vc.note("%s: unmodelled implementation %s: %s", fr.pos(in.Pos()), cand.fn, why)
			b.taint = True
			vc.havocAll(b)
			r, err := freshResults(b, false)
			rs = r
			return err
		}
		fn := cand.fn
		callArgs := append([]Term{recvArg}, args...)
		if len(fn.Params) != 0 && len(fn.Params) != len(callArgs) {
			return fr.unsupportedErr(in, fmt.Errorf("devirtualised call arity mismatch for %s", fn))
		}
		if err := fr.staticCall(b, fn, nil, callArgs, in, set, freshResults, unm); err != nil {
			return err
		}
		if len(rs) != nres {
			r, err := freshResults(b, false)
			if err != nil {
				return fr.unsupportedErr(in, err)
			}
			rs = r
		}
		branches = append(branches, b)
		results = append(results, rs)
	}
	if it, ok := U(cc.Value.Type()).(*types.Interface); ok && sealedInterface(it) {
		// an interface with an unexported method can only be implemented in its own package:
		// the implementations found are all there are
		vc.assume("sealed interface " + stripTypeArgs(typeKey(cc.Value.Type())) + ": only the in-package implementations exist (it has an unexported method)")
	} else {
		// unknown dynamic type
		d := st.clone()
		d.assume(Not(Or(known...)))
		d.reach = vc.Define("reach", d.reach)
		d.taint = True
		vc.havocAll(d)
		drs, err := freshResults(d, false)
		if err != nil {
			return fr.unsupportedErr(in, err)
		}
		vc.note("%s: dynamic call %s: %d in-repo implementations analysed; other dynamic types are unmodelled", fr.pos(in.Pos()), cc.Method.Name(), len(cands))
		branches = append(branches, d)
		results = append(results, drs)
	}
	merged := vc.mergeStates(branches)
	out := make([]Term, nres)
	for k := 0; k < nres; k++ {
		t := results[len(results)-1][k]
		for i := len(results) - 2; i >= 0; i-- {
			t = Ite(branches[i].reach, results[i][k], t)
		}
		out[k] = vc.Define("dyn", t)
	}
	*st = *merged
	setResults(out)
	return nil
}

// rangeOverFunc models `for x := range it { body }` (lowered by go/ssa to it(yield$k)) as a loop
// over the abstract sequence yielded(it, 0..yieldcount(it)-1), which the iterator's contract
// describes; the synthetic yield closure is the loop body. Invariants come from the enclosing
// contract under the key "yield<k>" and may mention `yieldindex`.
func (fr *Frame) rangeOverFunc(st *State, it Term, mc *ssa.MakeClosure, yf *ssa.Function, in ssa.Instruction) error {
	vc := fr.vc
	vc.nondet = true
	ord := vc.ordinal("yield:" + fr.path)
	key := fmt.Sprintf("yield%d", ord)
	var spec *LoopSpec
	if fr.contract != nil {
		spec = fr.contract.Loops[key]
	}
	if spec == nil {
		vc.note("%s: range-over-func loop %s has no invariant (true assumed)", fr.pos(in.Pos()), key)
	}
	vc.DeclareFun("yieldcount", []Sort{SFunc}, SInt)
	n := App(SInt, "yieldcount", it)
	st.assume(Ge(n, IntLit(0)))
	var binds []Term
	var jumpCell Term
	for _, b := range mc.Bindings {
		t, err := fr.value(b)
		if err != nil {
			return err
		}
		binds = append(binds, t)
		if al, ok := b.(*ssa.Alloc); ok && strings.HasPrefix(al.Comment, "jump$") {
			jumpCell = t
		}
	}
	intT := types.Typ[types.Int]
	blk := in.Block()
	envAt := func(s *State, k Term) *SpecEnv {
		env := fr.baseEnv(s)
		env.lookup = func(nm string) (SpecVal, bool) { return fr.lookupLocal(nm, blk, s, nil) }
		env.vars["yieldindex"] = SpecVal{T: k}
		env.vars["iterator"] = SpecVal{T: it, Ty: cc0Type(in)}
		return env
	}
	jumpZero := func(s *State) Term {
		if !jumpCell.Valid() {
			return True
		}
		v, err := vc.loadRaw(s, jumpCell, intT)
		if err != nil {
			return True
		}
		zero, _ := vc.zeroValue(intT)
		return Eq(v, zero)
	}
	check := func(s *State, k Term, phase string) {
		if spec != nil {
			for _, inv := range spec.Invs {
				t, err := envAt(s, k).EvalBool(inv.E)
				if err != nil {
					vc.note("contract error: loop %s invariant %s: %v", key, inv.Label, err)
					continue
				}
				vc.addObl(&Obligation{Name: fr.oblName("inv", fmt.Sprintf("%s.%s:%s", key, inv.Label, phase)), Kind: "inv-" + phase, Reach: s.reach, Cond: t,
					Taint: s.taint, Pos: fr.pos(in.Pos()), Descr: "range-over-func loop invariant (" + phase + "): " + inv.Src})
			}
		}
		vc.addObl(&Obligation{Name: fr.oblName("inv", fmt.Sprintf("%s.resume:%s", key, phase)), Kind: "inv-" + phase, Reach: s.reach, Cond: jumpZero(s),
			Taint: s.taint, Pos: fr.pos(in.Pos()), Descr: "the loop body leaves the range-over-func state cell ready for the next element"})
	}
	// 1. invariants on entry
	check(st, IntLit(0), "init")
	// 2. havoc what the body may write
	hs := st.clone()
	ef := &effects{sorts: map[Sort][]Term{}, unk: map[Sort]bool{}, ghostVars: map[string]bool{}, fresh: map[Sort]bool{}, exact: map[Sort][]Term{}}
	fr.yieldEffects(yf, mc, binds, ef)
	if ef.all {
		vc.havocAllLoop(hs)
	} else {
		var sl []string
		for _, s := range sortedKeys(ef.sorts) {
			sl = append(sl, string(s))
		}
		sort.Strings(sl)
		for _, ss := range sl {
			s := Sort(ss)
			old := vc.heap(hs, s)
			if ef.unk[s] {
				hs.heaps[s] = vc.Fresh("hy", heapSort(s))
			} else {
				var conds []string
				for _, a := range ef.exact[s] {
					conds = append(conds, fmt.Sprintf("(not (= q!r %s))", a.S))
				}
				if ef.fresh[s] {
					conds = append(conds, fmt.Sprintf("(< (rid q!r) %s)", st.alloc.S))
				}
				hs.heaps[s] = vc.MixHeap(s, old, Term{fmt.Sprintf("(and %s true)", strings.Join(conds, " ")), SBool})
			}
			hs.touch(s)
			vc.heapReg[s] = true
		}
		if ef.maps {
			hs.maps = map[string]Term{}
			hs.mbase = vc.freshName("ep")
			hs.lazyParents, hs.lazySels = nil, nil
		} else {
			for _, kv := range sortedKV(ef.mapKV) {
				vc.havocMapsOfSorts(hs, kv[0], kv[1])
			}
		}
		na := vc.Fresh("alloc", SInt)
		hs.assume(Ge(na, hs.alloc))
		hs.alloc = na
		for _, g := range sortedKeys(ef.ghostVars) {
			if gv := vc.ctx.ghostVars[g]; gv != nil {
				vc.havocGhostVar(hs, gv)
			}
		}
	}
	k := vc.Fresh("yieldindex", SInt)
	hs.assume(And(Le(IntLit(0), k), Le(k, n)))
	if spec != nil {
		for _, inv := range spec.Invs {
			if t, err := envAt(hs, k).EvalBool(inv.E); err == nil {
				hs.assume(t)
			}
		}
	}
	hs.assume(jumpZero(hs))
	hs.reach = vc.Define("reach", hs.reach)
	// 3. one arbitrary iteration
	bs := hs.clone()
	bs.assume(Lt(k, n))
	var yargs []Term
	for i, p := range yf.Params {
		srt, err := vc.tt.SortOf(p.Type())
		if err != nil {
			return err
		}
		fn := fmt.Sprintf("yielded%d!%s", i, sanitize(string(srt)))
		vc.DeclareFun(fn, []Sort{SFunc, SInt}, srt)
		e := App(srt, fn, it, k)
		bs.assume(vc.rangeAssumption(e, p.Type(), bs.alloc))
		yargs = append(yargs, e)
	}
	bs.reach = vc.Define("reach", bs.reach)
	rs, err := fr.inline(bs, yf, nil, binds, yargs, in)
	if err != nil {
		return err
	}
	if len(rs) != 1 || rs[0].Sort != SBool {
		return fmt.Errorf("yield closure does not return a bool")
	}
	cont := bs.clone()
	cont.assume(rs[0])
	cont.reach = vc.Define("reach", cont.reach)
	check(cont, Add(k, IntLit(1)), "preserve")
	// 4. after the loop: exhausted, or the body asked to stop
	done := hs.clone()
	done.assume(Ge(k, n))
	done.reach = vc.Define("reach", done.reach)
	brk := bs.clone()
	brk.assume(Not(rs[0]))
	brk.reach = vc.Define("reach", brk.reach)
	*st = *vc.mergeStates([]*State{done, brk})
	if vc.ctx.firstIter {
		// the under-approximating mode has no unrolled form of a range-over-func loop: what follows
		// such a loop is not a real path, a refutation there does not count
		st.taint = True
	}
	vc.assume("range-over-func: the iterator yields the abstract sequence its contract describes (the producer side is assumed, not verified)")
	return nil
}

// yieldEffects: what the loop-body closure may write; stores through captured variables are
// exact addresses (the captured cells are allocated before the loop).
func (fr *Frame) yieldEffects(yf *ssa.Function, mc *ssa.MakeClosure, binds []Term, ef *effects) {
	vc := fr.vc
	fv := map[ssa.Value]Term{}
	for i, f := range yf.FreeVars {
		if i < len(binds) {
			fv[f] = binds[i]
		}
	}
	for _, b := range yf.Blocks {
		for _, in := range b.Instrs {
			switch x := in.(type) {
			case *ssa.Store:
				leaf := map[Sort]bool{}
				vc.leafSorts(U(x.Addr.Type()).(*types.Pointer).Elem(), leaf)
				if a, ok := fv[x.Addr]; ok && vc.tt.Slots(U(x.Addr.Type()).(*types.Pointer).Elem()) == 1 {
					for _, s := range sortedKeys(leaf) {
						ef.exact[s] = append(ef.exact[s], a)
						if _, has := ef.sorts[s]; !has {
							ef.sorts[s] = nil
						}
					}
					continue
				}
				if _, isAlloc := x.Addr.(*ssa.Alloc); isAlloc {
					for _, s := range sortedKeys(leaf) {
						ef.fresh[s] = true
						if _, has := ef.sorts[s]; !has {
							ef.sorts[s] = nil
						}
					}
					continue
				}
				if ia, ok := x.Addr.(*ssa.IndexAddr); ok {
					if _, isAlloc := ia.X.(*ssa.Alloc); isAlloc {
						for _, s := range sortedKeys(leaf) {
							ef.fresh[s] = true
							if _, has := ef.sorts[s]; !has {
								ef.sorts[s] = nil
							}
						}
						continue
					}
				}
				for _, s := range sortedKeys(leaf) {
					ef.unk[s] = true
					if _, has := ef.sorts[s]; !has {
						ef.sorts[s] = nil
					}
				}
			case *ssa.MapUpdate, *ssa.MakeMap:
				ef.maps = true
			case *ssa.Alloc:
				leaf := map[Sort]bool{}
				vc.leafSorts(U(x.Type()).(*types.Pointer).Elem(), leaf)
				for _, s := range sortedKeys(leaf) {
					ef.fresh[s] = true
					if _, has := ef.sorts[s]; !has {
						ef.sorts[s] = nil
					}
				}
			case *ssa.MakeInterface:
				if srt, err := vc.tt.SortOf(x.X.Type()); err == nil && srt != SRef {
					leaf := map[Sort]bool{}
					vc.leafSorts(x.X.Type(), leaf)
					for _, s := range sortedKeys(leaf) {
						ef.fresh[s] = true
						if _, has := ef.sorts[s]; !has {
							ef.sorts[s] = nil
						}
					}
				}
			case *ssa.Go:
				ef.all = true
			case ssa.CallInstruction:
				cc := x.Common()
				if bi, ok := cc.Value.(*ssa.Builtin); ok {
					switch bi.Name() {
					case "append":
						leaf := map[Sort]bool{}
						vc.leafSorts(U(cc.Args[0].Type()).(*types.Slice).Elem(), leaf)
						for _, s := range sortedKeys(leaf) {
							ef.unk[s] = true
							if _, has := ef.sorts[s]; !has {
								ef.sorts[s] = nil
							}
						}
					case "copy":
						leaf := map[Sort]bool{}
						vc.leafSorts(U(cc.Args[0].Type()).(*types.Slice).Elem(), leaf)
						for _, s := range sortedKeys(leaf) {
							ef.unk[s] = true
							if _, has := ef.sorts[s]; !has {
								ef.sorts[s] = nil
							}
						}
					case "delete", "clear":
						ef.maps = true
					}
					continue
				}
				dummy := &loopInfo{blocks: map[*ssa.BasicBlock]bool{}}
				for _, bb := range yf.Blocks {
					dummy.blocks[bb] = true
				}
				fr.callEffects(x, dummy, ef)
			}
		}
	}
}

// cc0Type: static type of the called function value of a call instruction (the iterator).
func cc0Type(in ssa.Instruction) types.Type {
	if ci, ok := in.(ssa.CallInstruction); ok {
		return ci.Common().Value.Type()
	}
	return nil
}

func shortKey(key string) string {
	if i := strings.LastIndex(key, "/"); i >= 0 {
		return key[i+1:]
	}
	return key
}

func (fr *Frame) inline(st *State, fn *ssa.Function, c *FuncContract, binds []Term, args []Term, in ssa.Instruction) ([]Term, error) {
	vc := fr.vc
	sk := shortKey(funcKey(fn))
	n := vc.ordinal("inl:" + fr.path + sk)
	path := fmt.Sprintf("%s@%d", sk, n)
	if fr.path != "" {
		path = fr.path + "/" + path
	}
	sub := vc.newFrame(fn, c, path, fr.depth+1, fr.stack)
	if len(args) != len(fn.Params) {
		return nil, fmt.Errorf("arity mismatch")
	}
	for i, p := range fn.Params {
		sub.vals[p] = args[i]
	}
	for i, fv := range fn.FreeVars {
		if i < len(binds) {
			sub.freeVars[fv] = binds[i]
		}
	}
	entry := st.clone()
	if err := sub.encodeBody(entry); err != nil {
		return nil, err
	}
	ms, rs := sub.mergeReturns()
	*st = *ms
	return rs, nil
}

// mergeReturns merges all return sites into one state and result vector.
func (fr *Frame) mergeReturns() (*State, []Term) {
	vc := fr.vc
	var ins []*State
	for _, r := range fr.rets {
		ins = append(ins, r.st)
	}
	ms := vc.mergeStates(ins)
	n := fr.fn.Signature.Results().Len()
	rs := make([]Term, n)
	for k := 0; k < n; k++ {
		var t Term
		for i := len(fr.rets) - 1; i >= 0; i-- {
			if i == len(fr.rets)-1 {
				t = fr.rets[i].vals[k]
			} else if i < len(ms.mergeSels) {
				t = Ite(ms.mergeSels[i], fr.rets[i].vals[k], t)
			} else {
				t = Ite(fr.rets[i].st.reach, fr.rets[i].vals[k], t)
			}
		}
		if len(fr.rets) == 0 {
			srt, _ := vc.tt.SortOf(fr.fn.Signature.Results().At(k).Type())
			t = vc.Fresh("noret", srt)
		}
		rs[k] = vc.Define(fmt.Sprintf("res%d", k), t)
	}
	return ms, rs
}

// sigNames returns parameter names/types including the receiver first.
func sigNames(sig *types.Signature, recvT types.Type) ([]string, []types.Type) {
	var names []string
	var tys []types.Type
	if sig.Recv() != nil {
		n := sig.Recv().Name()
		if n == "" || n == "_" {
			n = "recv"
		}
		names = append(names, n)
		if recvT != nil {
			tys = append(tys, recvT)
		} else {
			tys = append(tys, sig.Recv().Type())
		}
	} else if recvT != nil {
		names = append(names, "recv")
		tys = append(tys, recvT)
	}
	for i := 0; i < sig.Params().Len(); i++ {
		n := sig.Params().At(i).Name()
		if n == "" || n == "_" {
			n = fmt.Sprintf("arg%d", i)
		}
		names = append(names, n)
		tys = append(tys, sig.Params().At(i).Type())
	}
	return names, tys
}

func bindResults(env *SpecEnv, sig *types.Signature, rs []Term) {
	res := sig.Results()
	for i := 0; i < res.Len(); i++ {
		sv := SpecVal{T: rs[i], Ty: res.At(i).Type()}
		env.vars[fmt.Sprintf("result%d", i)] = sv
		if res.Len() == 1 {
			env.vars["result"] = sv
		}
		if n := res.At(i).Name(); n != "" && n != "_" {
			if _, clash := env.vars[n]; !clash {
				env.vars[n] = sv
			}
		}
	}
}

// applyContract models a call by the callee's contract.
func (fr *Frame) applyContract(st *State, c *FuncContract, key string, sig *types.Signature, recvT types.Type, args []Term, in ssa.Instruction) ([]Term, error) {
	vc := fr.vc
	names, tys := sigNames(sig, recvT)
	vc.nondet = true
	if len(names) != len(args) {
		return nil, fr.unsupportedErr(in, fmt.Errorf("contract call %s: %d names for %d args", key, len(names), len(args)))
	}
	pkg := vc.ctx.typesPkg(c.PkgPath)
	pre := st.clone()
	env := &SpecEnv{vc: vc, vars: map[string]SpecVal{}, cur: pre, old: pre, pkg: pkg}
	for i, n := range names {
		env.vars[n] = SpecVal{T: args[i], Ty: tys[i]}
	}
	sk := shortKey(key)
	n := vc.ordinal("pre:" + fr.path + sk)
	assumePre := false
	if sh := vc.ctx.contracts[vc.rootPkg()+"=>"+key]; sh != nil && sh != c && sh.AssumePre {
		assumePre = true
		vc.assume("preconditions of " + key + " are assumed, not checked, at calls from package " + vc.rootPkg() + " (assumepre in its contract file)")
	}
	if rc := vc.contract; rc != nil && rc.AssumeCalleePre && !assumePre {
		assumePre = true
		vc.assume("preconditions of callees are assumed, not checked, inside " + vc.fullName + " (assumecalleepre: thin call-site contract)")
	}
	for _, rq := range c.Requires {
		t, err := env.EvalBool(rq.E)
		if err != nil {
			vc.note("contract error: %s requires %s: %v", key, rq.Label, err)
			st.taint = True
			continue
		}
		if assumePre {
			st.assume(t)
			continue
		}
		vc.addObl(&Obligation{Name: fr.oblName("pre", fmt.Sprintf("%s@%d.%s", sk, n, rq.Label)), Kind: "pre", Reach: st.reach, Cond: t,
			Taint: st.taint, Pos: fr.pos(in.Pos()), Descr: "precondition of " + key + ": " + rq.Src})
		st.assume(t)
	}
	// frame
	if c.ModifiesAll {
		vc.havocAll(st)
	} else if len(c.Modifies) > 0 {
		hints := map[string]types.Type{}
		if ci, ok := in.(ssa.CallInstruction); ok {
			cargs := ci.Common().Args
			off := len(names) - len(cargs)
			for i, a := range cargs {
				if mi, ok := a.(*ssa.MakeInterface); ok && off+i >= 0 && off+i < len(names) {
					hints[names[off+i]] = mi.X.Type()
				}
			}
		}
		if err := vc.havocModifies(st, env, c.Modifies, hints); err != nil {
			vc.note("contract error: %s modifies: %v", key, err)
			st.taint = True
			vc.havocAll(st)
		}
	}
	if !c.ModifiesAll {
		for _, s := range vc.modifiedSorts(env, c) {
			st.heaps[s] = vc.Fresh("hty", heapSort(s))
			st.touch(s)
			vc.heapReg[s] = true
		}
	}
	// A package may restate, in its own contract file, the bookkeeping it wants for a function
	// that carries a (proved or trusted) contract in its own package: the callee's own contract
	// decides what the call means; the local declaration only adds its call log and ghost
	// assignments (ghost state of the calling package).
	shadow := vc.ctx.contracts[vc.rootPkg()+"=>"+key]
	if shadow == c {
		shadow = nil
	}
	for _, lc := range []*FuncContract{c, shadow} {
		if lc == nil || !lc.Logged {
			continue
		}
		if gv := vc.ctx.ghostVars[lc.PkgPath+"::calls_"+lc.LogName]; gv != nil {
			cur, _, _ := vc.ghostVar(st, gv)
			st.ghost["gv!"+gv.PkgPath+"::"+gv.Name] = vc.Define("calls", Add(cur, IntLit(1)))
		}
		off := 0
		if sig.Recv() != nil || recvT != nil {
			off = 1
		}
		for i := 0; i < sig.Params().Len(); i++ {
			if gv := vc.ctx.ghostVars[lc.PkgPath+"::arg_"+lc.LogName+"_"+sig.Params().At(i).Name()]; gv != nil && off+i < len(args) {
				if _, _, err := vc.ghostVar(st, gv); err == nil {
					st.ghost["gv!"+gv.PkgPath+"::"+gv.Name] = args[off+i]
				}
			}
		}
	}
	if c.ModifiesMaps && !c.ModifiesAll {
		st.maps = map[string]Term{}
		st.mbase = vc.freshName("ep")
		st.lazyParents, st.lazySels = nil, nil
	}
	for _, g := range c.Assigns {
		if gv := vc.ctx.ghostVars[vc.ctx.ghostKey(c.PkgPath, g)]; gv != nil {
			vc.havocGhostVar(st, gv)
		} else {
			vc.note("contract error: %s assigns unknown ghost variable %s", key, g)
		}
	}
	// the callee may allocate
	var app *appendEffect
	if c.Appends != nil {
		a, err := vc.applyAppends(st, env, c.Appends)
		if err != nil {
			vc.note("contract error: %s appends: %v", key, err)
			st.taint = True
			vc.havocAll(st)
		} else {
			app = a
		}
	}
	na := vc.Fresh("alloc", SInt)
	st.assume(Ge(na, st.alloc))
	st.alloc = na
	var rs []Term
	res := sig.Results()
	for i := 0; i < res.Len(); i++ {
		srt, err := vc.tt.SortOf(res.At(i).Type())
		if err != nil {
			return nil, fr.unsupportedErr(in, err)
		}
		if i == 0 && app != nil && srt == SSlice && c.Appends.When == nil {
			rs = append(rs, app.res)
			continue
		}
		// `ensures result == <parameter>` (methods that return their receiver): the result IS
		// that argument, so that terms over it are shared instead of merely provably equal
		if a, ok := resultIsParam(c, i, res.Len(), names, args, srt); ok {
			rs = append(rs, a)
			continue
		}
		f := vc.Fresh(fmt.Sprintf("%s_r%d", sanitize(sk), i), srt)
		st.assume(vc.rangeAssumption(f, res.At(i).Type(), st.alloc))
		rs = append(rs, f)
	}
	if app != nil && c.Appends.When != nil && len(rs) > 0 && rs[0].Sort == SSlice {
		// conditional append: decided by the other results
		wenv := &SpecEnv{vc: vc, vars: map[string]SpecVal{}, cur: st, old: pre, pkg: pkg}
		for k, v := range env.vars {
			wenv.vars[k] = v
		}
		bindResults(wenv, sig, rs)
		w, err := wenv.EvalBool(c.Appends.When)
		if err != nil {
			vc.note("contract error: %s appends ... when: %v", key, err)
			st.taint = True
		} else {
			st.assume(Eq(app.when, w))
			st.assume(Implies(w, Eq(rs[0], app.res)))
		}
	}
	post := &SpecEnv{vc: vc, vars: map[string]SpecVal{}, cur: st, old: pre, pkg: pkg}
	for k, v := range env.vars {
		post.vars[k] = v
	}
	bindResults(post, sig, rs)
	for _, en := range c.Ensures {
		markEffectFree(vc, en.E, post)
	}
	type pkgSet struct {
		gs  GhostSet
		pkg string
	}
	var sets []pkgSet
	for _, gs := range c.Sets {
		sets = append(sets, pkgSet{gs, c.PkgPath})
	}
	if shadow != nil {
		for _, gs := range shadow.Sets {
			sets = append(sets, pkgSet{gs, shadow.PkgPath})
		}
	}
	for _, ps := range sets {
		gs := ps.gs
		gv := vc.ctx.ghostVars[ps.pkg+"::"+gs.Var]
		if gv == nil {
			vc.note("contract error: %s sets unknown ghost variable %s", key, gs.Var)
			continue
		}
		v, err := post.Eval(gs.E)
		if err != nil {
			vc.note("contract error: %s sets %s: %v", key, gs.Var, err)
			continue
		}
		cur, _, _ := vc.ghostVar(st, gv)
		t := v.T
		if v.Lit != nil {
			t = post.litTerm(v.Lit, cur.Sort)
		}
		st.ghost["gv!"+gv.PkgPath+"::"+gv.Name] = vc.Define("gs", t)
	}
	for _, en := range c.Ensures {
		t, err := post.EvalBool(en.E)
		if err != nil {
			vc.note("contract error: %s ensures %s: %v", key, en.Label, err)
			continue
		}
		st.assume(t)
	}
	for _, a := range post.assumes {
		st.assume(a)
	}
	st.reach = vc.Define("reach", st.reach)
	if c.Trusted || c.Kind == "extern" {
		vc.assume("assumed contract: " + key)
	}
	return rs, nil
}

// havocModifies replaces the heaps of the sorts named by the modifies clauses
// with fresh ones that agree with the old ones outside the named locations.
func (vc *VC) havocModifies(st *State, env *SpecEnv, mods []*Expr, hints map[string]types.Type) error {
	type rng struct{ cond string }
	per := map[Sort][]string{}
	perRefs := map[Sort][]Term{} // the objects written, per sort (for read-over-write resolution)
	exactRefs := true
	q := Term{"q!r", SRef}
	var wholeObjects []Term // rid terms of objects that may change in every sort
	addRegion := func(addr Term, t types.Type, count Term) {
		leaf := map[Sort]bool{}
		vc.leafSorts(t, leaf)
		slots := vc.tt.Slots(t)
		var cond string
		if count.S == "" && slots == 1 {
			cond = Eq(q, addr).S
		} else {
			size := IntLit(slots)
			if count.S != "" {
				size = Mul(count, IntLit(slots))
			}
			cond = And(Eq(Rid(q), Rid(addr)), Le(Roff(addr), Roff(q)), Lt(Roff(q), Add(Roff(addr), size))).S
		}
		for _, s := range sortedKeys(leaf) {
			per[s] = append(per[s], cond)
			perRefs[s] = append(perRefs[s], addr)
		}
	}
	for _, m := range mods {
		if m.Kind == ECall && m.Args[0].Kind == EIdent && m.Args[0].Name == "pointee" && len(m.Args) == 2 {
			// what an interface-typed argument points to: the exact region when the call site
			// shows the dynamic type (a *T made into an interface there), else the whole object
			x, err := env.Eval(m.Args[1])
			if err != nil {
				return err
			}
			if x.T.Sort != SIface {
				return fmt.Errorf("pointee() of a non-interface value")
			}
			if m.Args[1].Kind == EIdent {
				if ht, ok := hints[m.Args[1].Name]; ok {
					if pt, ok := U(ht).(*types.Pointer); ok {
						leaf := map[Sort]bool{}
						vc.leafSorts(pt.Elem(), leaf)
						slots := vc.tt.Slots(pt.Elem())
						addr := IRefOf(x.T)
						cond := And(Eq(Rid(q), Rid(addr)), Le(Roff(addr), Roff(q)), Lt(Roff(q), Add(Roff(addr), IntLit(slots)))).S
						for _, s := range sortedKeys(leaf) {
							per[s] = append(per[s], cond)
							perRefs[s] = append(perRefs[s], addr)
						}
						continue
					}
				}
			}
			wholeObjects = append(wholeObjects, Rid(IRefOf(x.T)))
			exactRefs = false
			continue
		}
		if m.Kind == ESlice {
			x, err := env.Eval(m.Args[0])
			if err != nil {
				return err
			}
			sl, ok := U(x.Ty).(*types.Slice)
			if !ok {
				return fmt.Errorf("modifies %s: not a slice", m.String())
			}
			lo := IntLit(0)
			hi := SLen(x.T)
			if m.Args[1] != nil {
				v, err := env.Eval(m.Args[1])
				if err != nil {
					return err
				}
				lo = vc.toIndex(v.T, v.Ty)
			}
			if m.Args[2] != nil {
				v, err := env.Eval(m.Args[2])
				if err != nil {
					return err
				}
				hi = vc.toIndex(v.T, v.Ty)
			}
			k := vc.tt.Slots(sl.Elem())
			addRegion(ElemAddr(SBase(x.T), lo, k), sl.Elem(), Sub(hi, lo))
			continue
		}
		addr, t, err := env.addrOf(m)
		if err != nil {
			return err
		}
		addRegion(addr, t, Term{})
	}
	if len(wholeObjects) > 0 {
		for _, s := range sortedKeys(vc.heapReg) {
			for _, r := range wholeObjects {
				per[s] = append(per[s], Eq(Rid(q), r).S)
			}
		}
		vc.assume("pointee(x) of unknown dynamic type: every slot of the object x points to may change, in the heap sorts the function under verification mentions")
	}
	var sl []string
	for s := range per {
		sl = append(sl, string(s))
	}
	sort.Strings(sl)
	for _, ss := range sl {
		s := Sort(ss)
		old := vc.heap(st, s)
		nh := vc.MixHeap(s, old, Term{fmt.Sprintf("(not (or %s false))", strings.Join(per[s], " ")), SBool})
		st.heaps[s] = nh
		st.touch(s)
		vc.heapReg[s] = true
		if exactRefs && len(perRefs[s]) == len(per[s]) {
			vc.noteLayer(nh, old, perRefs[s]...)
		}
	}
	return nil
}

// copyRange: heap' = heap with n elements of elemType copied from src to dst (memmove semantics).
func (vc *VC) copyRange(st *State, elem types.Type, dst, src Term, n Term) {
	leaf := map[Sort]bool{}
	vc.leafSorts(elem, leaf)
	k := vc.tt.Slots(elem)
	size := Mul(n, IntLit(k))
	var sl []string
	for _, s := range sortedKeys(leaf) {
		sl = append(sl, string(s))
	}
	sort.Strings(sl)
	for _, ss := range sl {
		s := Sort(ss)
		old := vc.heap(st, s)
		q := Term{"q!r", SRef}
		inDst := And(Eq(Rid(q), Rid(dst)), Le(Roff(dst), Roff(q)), Lt(Roff(q), Add(Roff(dst), size)))
		from := Select(old, MkRef(Rid(src), Add(Roff(src), Sub(Roff(q), Roff(dst)))))
		nh := vc.LambdaHeap("hc", s, Ite(inDst, from, Select(old, q)))
		st.heaps[s] = nh
		st.touch(s)
		vc.heapReg[s] = true
	}
}

func (fr *Frame) builtin(st *State, b *ssa.Builtin, cc *ssa.CallCommon, args []Term, in ssa.Instruction) ([]Term, error) {
	vc := fr.vc
	switch b.Name() {
	case "len", "cap":
		a := args[0]
		var r Term
		switch u := U(cc.Args[0].Type()).(type) {
		case *types.Slice:
			if b.Name() == "len" {
				r = SLen(a)
			} else {
				r = SCap(a)
			}
		case *types.Basic:
			r = App(SInt, "strlen", a)
		case *types.Map:
			r = Ite(Eq(Rid(a), IntLit(0)), IntLit(0), Select(vc.mapHeap(st, "len", "", ""), Rid(a)))
			st.assume(And(Ge(r, IntLit(0)), Lt(r, IntLitBig(pow2(47)))))
		case *types.Array:
			r = IntLit(u.Len())
		case *types.Pointer:
			if arr, ok := U(u.Elem()).(*types.Array); ok {
				r = IntLit(arr.Len())
			}
		case *types.Chan:
			f := vc.Fresh("chanlen", SInt)
			st.assume(Ge(f, IntLit(0)))
			r = f
		}
		if !r.Valid() {
			return nil, fmt.Errorf("len/cap of %s", cc.Args[0].Type())
		}
		return []Term{vc.fromIndex(st, r, types.Typ[types.Int])}, nil
	case "append":
		st0 := U(cc.Args[0].Type()).(*types.Slice)
		elem := st0.Elem()
		s := args[0]
		if len(args) < 2 {
			return []Term{s}, nil
		}
		t := args[1]
		var tl Term
		var tbase Term
		strSrc := false
		switch U(cc.Args[1].Type()).(type) {
		case *types.Slice:
			tl = SLen(t)
			tbase = SBase(t)
		case *types.Basic:
			tl = App(SInt, "strlen", t)
			strSrc = true
		default:
			return nil, fmt.Errorf("append of %s", cc.Args[1].Type())
		}
		k := vc.tt.Slots(elem)
		// the common case append(s, x1, ..., xN): the variadic arguments sit in a fresh [N]T array
		constN := int64(-1)
		if sl, ok := cc.Args[1].(*ssa.Slice); ok && sl.Low == nil && sl.High == nil && !strSrc {
			if al, ok := sl.X.(*ssa.Alloc); ok {
				if arr, ok := U(U(al.Type()).(*types.Pointer).Elem()).(*types.Array); ok && arr.Len() <= 4 {
					constN = arr.Len()
				}
			}
		}
		if constN >= 0 {
			tl = IntLit(constN)
		}
		newLen := vc.Define("applen", Add(SLen(s), tl))
		fits := vc.Define("fits", Le(newLen, SCap(s)))
		var elemVals []Term
		if constN >= 0 {
			for i := int64(0); i < constN; i++ {
				v, err := vc.loadRaw(st, RefAdd(tbase, IntLit(i*k)), elem)
				if err != nil {
					constN = -1
					break
				}
				elemVals = append(elemVals, vc.Define("appv", v))
			}
		}
		writeNew := func(b *State, dst Term) {
			switch {
			case strSrc:
				vc.havocRegion(b, elem, dst, tl)
			case constN >= 0:
				// plain stores: no bulk-copy lambda needed for a fixed number of elements
				for i, v := range elemVals {
					if err := vc.storeAt(b, RefAdd(dst, IntLit(int64(i)*k)), elem, v); err != nil {
						vc.copyRange(b, elem, dst, tbase, tl)
						return
					}
				}
			default:
				vc.copyRange(b, elem, dst, tbase, tl)
			}
		}
		if srt, err := vc.tt.SortOf(elem); constN >= 0 && int64(len(elemVals)) == constN && k == 1 && !vc.tt.isAggregate(elem) && err == nil {
			// Uniform encoding for append(s, x1..xN) with single-slot elements: the contents of
			// the result are described once, wherever it lives (element j of the result is element
			// j of s for j < len(s), else x_{j-len(s)}); only the result's base depends on whether
			// the elements fit. Reads through the result then need no case split on fits.
			nb := vc.allocObject(st, nil)
			ncap := vc.Fresh("newcap", SInt)
			st.assume(And(Ge(ncap, newLen), Lt(ncap, IntLitBig(pow2(62)))))
			res := vc.Define("app", Ite(fits, MkSlice(SBase(s), newLen, SCap(s)), MkSlice(nb, newLen, ncap)))
			q := Term{"q!r", SRef}
			rb := SBase(res)
			j := Sub(Roff(q), Roff(rb))
			inRes := And(Eq(Rid(q), Rid(rb)), Le(Roff(rb), Roff(q)), Lt(Roff(q), Add(Roff(rb), newLen)))
			H := vc.heap(st, srt)
			tail := Select(H, q)
			for i := len(elemVals) - 1; i >= 0; i-- {
				tail = Ite(Eq(j, Add(SLen(s), IntLit(int64(i)))), elemVals[i], tail)
			}
			body := Ite(inRes, Ite(Lt(j, SLen(s)), Select(H, MkRef(Rid(SBase(s)), Add(Roff(SBase(s)), j))), tail), Select(H, q))
			vc.setHeap(st, srt, vc.LambdaHeap("happ", srt, body))
			return []Term{res}, nil
		}
		// in-place branch
		inPlace := st.clone()
		writeNew(inPlace, ElemAddr(SBase(s), SLen(s), k))
		// realloc branch
		re := st.clone()
		nb := vc.allocObject(re, nil)
		vc.copyRange(re, elem, nb, SBase(s), SLen(s))
		writeNew(re, ElemAddr(nb, SLen(s), k))
		ncap := vc.Fresh("newcap", SInt)
		re.assume(And(Ge(ncap, newLen), Lt(ncap, IntLitBig(pow2(62)))))
		// merge the two
		leaf := map[Sort]bool{}
		vc.leafSorts(elem, leaf)
		for _, srt := range sortedKeys(leaf) {
			vc.setHeap(st, srt, Ite(fits, vc.heap(inPlace, srt), vc.heap(re, srt)))
		}
		st.alloc = vc.Define("alloc", Ite(fits, inPlace.alloc, re.alloc))
		st.reach = vc.Define("reach", And(st.reach, Ite(fits, inPlace.reach, re.reach)))
		res := Ite(fits, MkSlice(SBase(s), newLen, SCap(s)), MkSlice(nb, newLen, ncap))
		return []Term{vc.Define("app", res)}, nil
	case "copy":
		dst, src := args[0], args[1]
		elem := U(cc.Args[0].Type()).(*types.Slice).Elem()
		var sl Term
		var strSrc bool
		switch U(cc.Args[1].Type()).(type) {
		case *types.Slice:
			sl = SLen(src)
		default:
			sl = App(SInt, "strlen", src)
			strSrc = true
		}
		n := vc.Define("ncopy", Ite(Le(SLen(dst), sl), SLen(dst), sl))
		if strSrc {
			vc.havocRegion(st, elem, SBase(dst), n)
		} else {
			vc.copyRange(st, elem, SBase(dst), SBase(src), n)
		}
		return []Term{vc.fromIndex(st, n, types.Typ[types.Int])}, nil
	case "delete":
		m, key := args[0], args[1]
		mt := U(cc.Args[0].Type()).(*types.Map)
		ks, err1 := vc.tt.SortOf(mt.Key())
		vs, err2 := vc.tt.SortOf(mt.Elem())
		if err1 != nil || err2 != nil {
			return nil, fmt.Errorf("delete on map with unsupported types")
		}
		domH := vc.mapHeap(st, "dom", ks, vs)
		lenH := vc.mapHeap(st, "len", "", "")
		had := And(Neq(Rid(m), IntLit(0)), Select(Select(domH, Rid(m)), key))
		vc.setMapHeap(st, "len", "", "", Store(lenH, Rid(m), Ite(had, Sub(Select(lenH, Rid(m)), IntLit(1)), Select(lenH, Rid(m)))))
		vc.setMapHeap(st, "dom", ks, vs, Store(domH, Rid(m), Store(Select(domH, Rid(m)), key, False)))
		return nil, nil
	case "clear":
		if sl, ok := U(cc.Args[0].Type()).(*types.Slice); ok {
			// clear(s): every element becomes the zero value
			elem := sl.Elem()
			leaf := map[Sort]bool{}
			vc.leafSorts(elem, leaf)
			dst := SBase(args[0])
			size := Mul(SLen(args[0]), IntLit(vc.tt.Slots(elem)))
			q := Term{"q!r", SRef}
			inDst := And(Eq(Rid(q), Rid(dst)), Le(Roff(dst), Roff(q)), Lt(Roff(q), Add(Roff(dst), size)))
			for _, srt := range sortedKeys(leaf) {
				z, err := vc.zeroOfSort(srt)
				if err != nil {
					return nil, err
				}
				old := vc.heap(st, srt)
				st.heaps[srt] = vc.LambdaHeap("hclr", srt, Ite(inDst, z, Select(old, q)))
				st.touch(srt)
				vc.heapReg[srt] = true
			}
			return nil, nil
		}
		mt, ok := U(cc.Args[0].Type()).(*types.Map)
		if !ok {
			return nil, fmt.Errorf("clear of a non-map")
		}
		ks, err1 := vc.tt.SortOf(mt.Key())
		vs, err2 := vc.tt.SortOf(mt.Elem())
		if err1 != nil || err2 != nil {
			return nil, fmt.Errorf("clear on map with unsupported types")
		}
		m := args[0]
		domH := vc.mapHeap(st, "dom", ks, vs)
		lenH := vc.mapHeap(st, "len", "", "")
		vc.setMapHeap(st, "dom", ks, vs, Store(domH, Rid(m), Term{fmt.Sprintf("((as const %s) false)", SArray(ks, SBool)), SArray(ks, SBool)}))
		vc.setMapHeap(st, "len", "", "", Store(lenH, Rid(m), IntLit(0)))
		return nil, nil
	case "min", "max":
		if _, _, ok := isIntType(cc.Args[0].Type()); !ok {
			return nil, fmt.Errorf("min/max on non-integers")
		}
		r := args[0]
		for i, a := range args[1:] {
			op := token2cmp(b.Name() == "min")
			c, _, err := vc.binop(op, a, r, cc.Args[i+1].Type(), nil)
			if err != nil {
				return nil, err
			}
			r = Ite(c, a, r)
		}
		return []Term{vc.Define(b.Name(), r)}, nil
	case "print", "println":
		return nil, nil
	case "ssa:wrapnilchk":
		fr.safe(st, "nil", Neq(Rid(args[0]), IntLit(0)), in, "nil receiver in method value")
		return []Term{args[0]}, nil
	}
	return nil, fmt.Errorf("builtin %s not modelled", b.Name())
}

// havocRegion makes n elements starting at dst unconstrained.
func (vc *VC) havocRegion(st *State, elem types.Type, dst Term, n Term) {
	leaf := map[Sort]bool{}
	vc.leafSorts(elem, leaf)
	k := vc.tt.Slots(elem)
	size := Mul(n, IntLit(k))
	for _, s := range sortedKeys(leaf) {
		old := vc.heap(st, s)
		q := Term{"q!r", SRef}
		inDst := And(Eq(Rid(q), Rid(dst)), Le(Roff(dst), Roff(q)), Lt(Roff(q), Add(Roff(dst), size)))
		nh := vc.MixHeap(s, old, Not(inDst))
		st.heaps[s] = nh
		st.touch(s)
		vc.heapReg[s] = true
	}
}

// callEffects over-approximates what a call inside a loop may write.
func (fr *Frame) callEffects(ci ssa.CallInstruction, li *loopInfo, ef *effects) {
	vc := fr.vc
	cc := ci.Common()
	markUnk := func(t types.Type) {
		leaf := map[Sort]bool{}
		vc.leafSorts(t, leaf)
		for _, s := range sortedKeys(leaf) {
			ef.unk[s] = true
			if _, has := ef.sorts[s]; !has {
				ef.sorts[s] = nil
			}
		}
	}
	if cc.IsInvoke() {
		key := stripTypeArgs(typeKey(cc.Value.Type())) + "." + cc.Method.Name()
		if c := vc.ifaceContractFor(key); c != nil {
			fr.contractCallEffects(c, cc.Method.Type().(*types.Signature), cc.Value.Type(), append([]ssa.Value{cc.Value}, cc.Args...), li, ef)
			return
		}
		if cc.Method.Name() == "Error" || cc.Method.Name() == "String" || isEffectFree(key) {
			return
		}
		if it, ok := U(cc.Value.Type()).(*types.Interface); ok && sealedInterface(it) {
			if cands := vc.ctx.implementations(it, cc.Method.Name()); len(cands) > 0 && len(cands) <= 12 {
				for _, cand := range cands {
					fr.funcEffects(cand.fn, ef, 0)
				}
				return
			}
		}
		ef.all = true
		return
	}
	if callee, ok := cc.Value.(*ssa.Function); ok {
		if c := vc.contractFor(funcKey(callee)); c != nil && !c.Inline {
			var recvT types.Type
			if callee.Signature.Recv() != nil {
				recvT = callee.Signature.Recv().Type()
			}
			fr.contractCallEffects(c, callee.Signature, recvT, cc.Args, li, ef)
			return
		}
	}
	switch callee := cc.Value.(type) {
	case *ssa.Builtin:
		switch callee.Name() {
		case "append":
			ef.alloc = true
			markUnk(U(cc.Args[0].Type()).(*types.Slice).Elem())
		case "copy":
			elem := U(cc.Args[0].Type()).(*types.Slice).Elem()
			leaf := map[Sort]bool{}
			vc.leafSorts(elem, leaf)
			root, ok := fr.rootOf(cc.Args[0], li)
			for _, s := range sortedKeys(leaf) {
				if ok {
					ef.sorts[s] = append(ef.sorts[s], root)
				} else {
					ef.unk[s] = true
					if _, has := ef.sorts[s]; !has {
						ef.sorts[s] = nil
					}
				}
			}
		case "delete", "clear":
			fr.addMapEffect(cc.Args[0], li, ef)
		}
	case *ssa.Function:
		fr.funcEffects(callee, ef, 0)
	case *ssa.MakeClosure:
		fr.funcEffects(callee.Fn.(*ssa.Function), ef, 0)
	default:
		// a function value bound to a known closure (a callback handed to an inlined callee)
		if ft, err := fr.value(cc.Value); err == nil {
			if ci, ok := vc.ctx.closures[ft.S]; ok {
				fr.funcEffects(ci.fn, ef, 0)
				return
			}
		}
		ef.all = true
	}
}

// addMapSortEffect: some map of this type is written; which one is not tracked.
func (fr *Frame) addMapSortEffect(t types.Type, ef *effects) {
	mt, ok := U(t).(*types.Map)
	if !ok {
		ef.maps = true
		return
	}
	ks, e1 := fr.vc.tt.SortOf(mt.Key())
	vs, e2 := fr.vc.tt.SortOf(mt.Elem())
	if e1 != nil || e2 != nil {
		ef.maps = true
		return
	}
	if ef.mapKV == nil {
		ef.mapKV = map[[2]Sort]bool{}
	}
	ef.mapKV[[2]Sort{ks, vs}] = true
}

// havocMapsOfSorts: every map with these key/value sorts gets arbitrary contents.
func (vc *VC) havocMapsOfSorts(st *State, ks, vs Sort) {
	vc.setMapHeap(st, "dom", ks, vs, vc.Fresh("domH", SArray(SInt, SArray(ks, SBool))))
	vc.setMapHeap(st, "val", ks, vs, vc.Fresh("valH", SArray(SInt, SArray(ks, vs))))
	nl := vc.Fresh("lenH", SArray(SInt, SInt))
	vc.setMapHeap(st, "len", "", "", nl)
}

// modTarget resolves a modifies expression statically to (index of the callee parameter it is
// rooted at, type of the modified region).
func modTarget(e *Expr, names []string, tys []types.Type) (int, types.Type, bool) {
	switch e.Kind {
	case EIdent:
		for i, n := range names {
			if n == e.Name {
				return i, tys[i], true
			}
		}
	case EUnary:
		if e.Op == "*" {
			i, t, ok := modTarget(e.Args[0], names, tys)
			if ok {
				if p, ok := U(t).(*types.Pointer); ok {
					return i, p.Elem(), true
				}
			}
		}
	case EField:
		i, t, ok := modTarget(e.Args[0], names, tys)
		if ok {
			if p, isP := U(t).(*types.Pointer); isP {
				t = p.Elem()
			}
			if obj, _ := lookupFieldAnyPkg(t, e.Op); obj != nil {
				return i, obj.Type(), true
			}
		}
	case ESlice, EIndex:
		i, t, ok := modTarget(e.Args[0], names, tys)
		if ok {
			switch u := U(t).(type) {
			case *types.Slice:
				return i, u.Elem(), true
			case *types.Array:
				return i, u.Elem(), true
			case *types.Pointer:
				if a, ok := U(u.Elem()).(*types.Array); ok {
					return i, a.Elem(), true
				}
			}
		}
	}
	return 0, nil, false
}

// contractCallEffects: like contractEffects but resolves the modifies clause against the
// actual arguments, so that writes through loop-invariant pointers keep a precise frame.
func (fr *Frame) contractCallEffects(c *FuncContract, sig *types.Signature, recvT types.Type, argVals []ssa.Value, li *loopInfo, ef *effects) {
	vc := fr.vc
	if c.ModifiesAll || len(c.Modifies) == 0 {
		fr.contractEffects(c, ef)
		return
	}
	saved := c.Modifies
	c.Modifies = nil
	fr.contractEffects(c, ef)
	c.Modifies = saved
	names, tys := sigNames(sig, recvT)
	for _, m := range c.Modifies {
		if m.Kind == ECall && m.Args[0].Kind == EIdent && m.Args[0].Name == "pointee" && len(m.Args) == 2 && m.Args[1].Kind == EIdent {
			handled := false
			for i, n := range names {
				if n != m.Args[1].Name || i >= len(argVals) {
					continue
				}
				if mi, ok := argVals[i].(*ssa.MakeInterface); ok {
					if pt, ok := U(mi.X.Type()).(*types.Pointer); ok {
						leaf := map[Sort]bool{}
						vc.leafSorts(pt.Elem(), leaf)
						root, rok := fr.rootOf(mi.X, li)
						for _, s := range sortedKeys(leaf) {
							switch {
							case rok && !root.Valid():
								ef.fresh[s] = true
							case rok:
								ef.sorts[s] = append(ef.sorts[s], root)
							default:
								ef.unk[s] = true
							}
							if _, has := ef.sorts[s]; !has {
								ef.sorts[s] = nil
							}
						}
						handled = true
					}
				}
			}
			if !handled {
				ef.all = true
				return
			}
			continue
		}
		idx, t, ok := modTarget(m, names, tys)
		if !ok || idx >= len(argVals) {
			ef.all = true
			return
		}
		leaf := map[Sort]bool{}
		vc.leafSorts(t, leaf)
		root, rok := fr.rootOf(argVals[idx], li)
		// *p with a single-slot pointee and a loop-invariant p: the exact address
		if m.Kind == EUnary && m.Op == "*" && m.Args[0].Kind == EIdent && vc.tt.Slots(t) == 1 && rok && root.Valid() {
			if pv, err := fr.value(argVals[idx]); err == nil && pv.Sort == SRef {
				for _, s := range sortedKeys(leaf) {
					ef.exact[s] = append(ef.exact[s], pv)
					if _, has := ef.sorts[s]; !has {
						ef.sorts[s] = nil
					}
				}
				continue
			}
		}
		// p.f with a single-slot field of a loop-invariant pointer parameter: the exact address
		if m.Kind == EField && m.Args[0].Kind == EIdent && vc.tt.Slots(t) == 1 && rok && root.Valid() {
			if pt, isP := U(tys[idx]).(*types.Pointer); isP {
				if stt, isS := U(pt.Elem()).(*types.Struct); isS {
					if pv, err := fr.value(argVals[idx]); err == nil && pv.Sort == SRef {
						done := false
						for fi := 0; fi < stt.NumFields(); fi++ {
							if stt.Field(fi).Name() == m.Op {
								addr := RefAdd(pv, IntLit(vc.tt.FieldOffset(stt, fi)))
								for _, s := range sortedKeys(leaf) {
									ef.exact[s] = append(ef.exact[s], addr)
									if _, has := ef.sorts[s]; !has {
										ef.sorts[s] = nil
									}
								}
								done = true
							}
						}
						if done {
							continue
						}
					}
				}
			}
		}
		for _, s := range sortedKeys(leaf) {
			switch {
			case rok && !root.Valid():
				ef.fresh[s] = true
				if _, has := ef.sorts[s]; !has {
					ef.sorts[s] = nil
				}
			case rok:
				ef.sorts[s] = append(ef.sorts[s], root)
			default:
				ef.unk[s] = true
				if _, has := ef.sorts[s]; !has {
					ef.sorts[s] = nil
				}
			}
		}
	}
}

func (fr *Frame) contractEffects(c *FuncContract, ef *effects) {
	for _, g := range c.Assigns {
		ef.ghostVars[fr.vc.ctx.ghostKey(c.PkgPath, g)] = true
	}
	for _, lc := range []*FuncContract{c, fr.vc.ctx.contracts[fr.vc.rootPkg()+"=>"+shadowKeyOf(c)]} {
		if lc == nil {
			continue
		}
		for _, gs := range lc.Sets {
			ef.ghostVars[lc.PkgPath+"::"+gs.Var] = true
		}
		if lc.Logged {
			for _, n := range sortedKeys(fr.vc.ctx.ghostVars) {
				if n == lc.PkgPath+"::calls_"+lc.LogName || strings.HasPrefix(n, lc.PkgPath+"::arg_"+lc.LogName+"_") {
					ef.ghostVars[n] = true
				}
			}
		}
	}
	if c.ModifiesMaps {
		ef.maps = true
	}
	if c.ModifiesAll {
		ef.all = true
		return
	}
	ef.alloc = true
	if len(c.ModifiesTypes) > 0 {
		env := &SpecEnv{vc: fr.vc, pkg: fr.vc.ctx.typesPkg(c.PkgPath)}
		for _, s := range fr.vc.modifiedSorts(env, c) {
			ef.unk[s] = true
			if _, has := ef.sorts[s]; !has {
				ef.sorts[s] = nil
			}
		}
	}
	if len(c.Modifies) > 0 {
		// conservatively: the sorts are determined at application time; mark everything of those sorts unknown
		// by evaluating the static types is not possible without arguments, so fall back to all heaps.
		ef.all = true
	}
}

func (fr *Frame) funcEffects(fn *ssa.Function, ef *effects, depth int) {
	vc := fr.vc
	key := funcKey(fn)
	if c := vc.contractFor(key); c != nil && !c.Inline {
		fr.contractEffects(c, ef)
		return
	}
	if isEffectFree(key) {
		return
	}
	if fn.Blocks == nil || depth > maxInlineDepth {
		ef.all = true
		return
	}
	for _, b := range fn.Blocks {
		for _, in := range b.Instrs {
			switch x := in.(type) {
			case *ssa.Store:
				leaf := map[Sort]bool{}
				vc.leafSorts(U(x.Addr.Type()).(*types.Pointer).Elem(), leaf)
				for _, s := range sortedKeys(leaf) {
					ef.unk[s] = true
					if _, has := ef.sorts[s]; !has {
						ef.sorts[s] = nil
					}
				}
			case *ssa.MapUpdate:
				ef.alloc = true
				fr.addMapSortEffect(x.Map.Type(), ef)
			case *ssa.MakeMap:
				ef.alloc = true
			case *ssa.Alloc:
				ef.alloc = true
				leaf := map[Sort]bool{}
				vc.leafSorts(U(x.Type()).(*types.Pointer).Elem(), leaf)
				for _, s := range sortedKeys(leaf) {
					ef.unk[s] = true
					if _, has := ef.sorts[s]; !has {
						ef.sorts[s] = nil
					}
				}
			case *ssa.MakeSlice:
				ef.alloc = true
				leaf := map[Sort]bool{}
				vc.leafSorts(U(x.Type()).(*types.Slice).Elem(), leaf)
				for _, s := range sortedKeys(leaf) {
					ef.unk[s] = true
					if _, has := ef.sorts[s]; !has {
						ef.sorts[s] = nil
					}
				}
			case *ssa.MakeInterface, *ssa.MakeClosure, *ssa.MakeChan:
				ef.alloc = true
			case *ssa.Go:
				ef.all = true
			case ssa.CallInstruction:
				cc := x.Common()
				if cc.IsInvoke() {
					key := stripTypeArgs(typeKey(cc.Value.Type())) + "." + cc.Method.Name()
					if c := vc.ifaceContractFor(key); c != nil {
						fr.contractEffects(c, ef)
					} else if !(cc.Method.Name() == "Error" || cc.Method.Name() == "String" || isEffectFree(key)) {
						ef.all = true
					}
					continue
				}
				switch callee := cc.Value.(type) {
				case *ssa.Builtin:
					switch callee.Name() {
					case "append", "copy":
						ef.alloc = true
						leaf := map[Sort]bool{}
						vc.leafSorts(U(cc.Args[0].Type()).(*types.Slice).Elem(), leaf)
						for _, s := range sortedKeys(leaf) {
							ef.unk[s] = true
							if _, has := ef.sorts[s]; !has {
								ef.sorts[s] = nil
							}
						}
					case "delete", "clear":
						fr.addMapSortEffect(cc.Args[0].Type(), ef)
					}
				case *ssa.Function:
					fr.funcEffects(callee, ef, depth+1)
				case *ssa.MakeClosure:
					fr.funcEffects(callee.Fn.(*ssa.Function), ef, depth+1)
				default:
					ef.all = true
				}
			}
		}
	}
}

// appendParts evaluates an appends clause in env (the pre-state of the call / the entry state
// of the function): the slice, its element sort, and the count as an index term.
func (vc *VC) appendParts(env *SpecEnv, as *AppendSpec) (b Term, es Sort, n Term, err error) {
	pv, ok := env.vars[as.Param]
	if !ok {
		return b, es, n, fmt.Errorf("appends: no parameter %q", as.Param)
	}
	sl, ok := U(pv.Ty).(*types.Slice)
	if !ok {
		return b, es, n, fmt.Errorf("appends: %s is not a slice", as.Param)
	}
	if vc.tt.isAggregate(sl.Elem()) || vc.tt.Slots(sl.Elem()) != 1 {
		return b, es, n, fmt.Errorf("appends: element type %s occupies several slots", sl.Elem())
	}
	es, err = vc.tt.SortOf(sl.Elem())
	if err != nil {
		return b, es, n, err
	}
	nv, err := env.Eval(as.N)
	if err != nil {
		return b, es, n, err
	}
	n = vc.toIndex(nv.T, nv.Ty)
	if nv.Lit != nil {
		n = IntLitBig(nv.Lit)
	}
	return pv.T, es, n, nil
}

type appendEffect struct {
	res  Term // the appended slice
	when Term // boolean constant: the append took place (True when unconditional)
}

// applyAppends is the caller's view of "appends p n": an exact heap transformer without
// quantifiers. It updates the element heap and the allocation counter of st and returns
// the resulting slice. With a when-condition the effect is guarded by a boolean constant
// (bound to the condition once the results exist) and the whole spare capacity of the old
// array counts as overwritten.
func (vc *VC) applyAppends(st *State, env *SpecEnv, as *AppendSpec) (*appendEffect, error) {
	b, es, n, err := vc.appendParts(env, as)
	if err != nil {
		return nil, err
	}
	q := Term{"q!r", SRef}
	ln, cp, base := SLen(b), SCap(b), SBase(b)
	st.assume(Ge(n, IntLit(0)))
	when := True
	if as.When != nil {
		when = vc.Fresh("appwhen", SBool)
	}
	fits := vc.Define("fits", Le(Add(ln, n), cp))
	H := vc.heap(st, es)
	F := vc.Fresh("happ", heapSort(es))
	newid := vc.Fresh("appobj", SInt)
	newoff := vc.Fresh("appoff", SInt)
	newcap := vc.Fresh("appcap", SInt)
	st.assume(And(Ge(newid, st.alloc), Ge(newid, IntLit(1)), Ge(newoff, IntLit(0)),
		Ge(newcap, Add(ln, n)), Lt(newcap, IntLitBig(pow2(62))),
		Lt(App(SInt, "otype", newid), IntLit(0))))
	// the part of the old array that may have been overwritten: n cells after the
	// length when everything fits, otherwise (at most) the whole spare capacity
	m := Ite(fits, n, Sub(cp, ln))
	if as.When != nil {
		m = Sub(cp, ln)
	}
	// Uniform description of the contents: element j of the result is element j of p for
	// j < len(p) and new otherwise, wherever the result lives; only its base depends on fits.
	res := vc.Define("app", Ite(fits, MkSlice(base, Add(ln, n), cp), MkSlice(MkRef(newid, newoff), Add(ln, n), newcap)))
	rb := SBase(res)
	j := Sub(Roff(q), Roff(rb))
	inRes := And(when, Eq(Rid(q), Rid(rb)), Le(Roff(rb), Roff(q)), Lt(Roff(q), Add(Roff(rb), Add(ln, n))))
	lo := Add(Roff(base), ln)
	inOld := And(Eq(Rid(q), Rid(base)), Le(lo, Roff(q)), Lt(Roff(q), Add(lo, m)))
	body := Ite(inRes, Ite(Lt(j, ln), Select(H, MkRef(Rid(base), Add(Roff(base), j))), Select(F, q)), Ite(inOld, Select(F, q), Select(H, q)))
	nh := vc.LambdaHeap("happ", es, body)
	st.alloc = vc.Define("alloc", Ite(And(when, Not(fits)), Add(newid, IntLit(1)), st.alloc))
	st.heaps[es] = nh
	st.touch(es)
	vc.heapReg[es] = true
	return &appendEffect{res: res, when: when}, nil
}

// modifiedSorts: the heap sorts named by the "modifies allof T" clauses of c.
func (vc *VC) modifiedSorts(env *SpecEnv, c *FuncContract) []Sort {
	set := map[Sort]bool{}
	for _, tn := range c.ModifiesTypes {
		t, err := env.resolveTypeName(tn)
		if err != nil || t == nil {
			vc.note("contract error: modifies allof %s: %v", tn, err)
			continue
		}
		vc.leafSorts(t, set)
	}
	var out []string
	for s := range set {
		out = append(out, string(s))
	}
	sort.Strings(out)
	var res []Sort
	for _, s := range out {
		res = append(res, Sort(s))
	}
	return res
}

// callbackName: the name under which a call through a function value is logged: a function-typed
// parameter, or a function-typed variable captured by a closure under contract.
func callbackName(v ssa.Value) (string, bool) {
	switch x := v.(type) {
	case *ssa.Parameter:
		if _, ok := U(x.Type()).(*types.Signature); ok {
			return x.Name(), true
		}
	case *ssa.FreeVar:
		if _, ok := U(x.Type()).(*types.Signature); ok {
			return x.Name(), true
		}
	case *ssa.UnOp:
		if fv, ok := x.X.(*ssa.FreeVar); ok && x.Op == token.MUL {
			if _, ok := U(x.Type()).(*types.Signature); ok {
				return fv.Name(), true
			}
		}
	}
	return "", false
}

// singleStoredClosure: v is a load from a local cell (Alloc) into which exactly one value is ever
// stored, a closure, and no closure that captures the cell stores into it.
func singleStoredClosure(v ssa.Value) *ssa.MakeClosure {
	un, ok := v.(*ssa.UnOp)
	if !ok || un.Op != token.MUL {
		return nil
	}
	al, ok := un.X.(*ssa.Alloc)
	if !ok || al.Referrers() == nil {
		return nil
	}
	var found *ssa.MakeClosure
	for _, r := range *al.Referrers() {
		switch x := r.(type) {
		case *ssa.Store:
			if x.Addr != ssa.Value(al) {
				return nil // the cell's address is stored somewhere
			}
			mc, ok := x.Val.(*ssa.MakeClosure)
			if !ok || found != nil {
				return nil
			}
			found = mc
		case *ssa.UnOp, *ssa.DebugRef:
		case *ssa.MakeClosure:
			// captured: the capturing function must not store into it
			fn, ok := x.Fn.(*ssa.Function)
			if !ok {
				return nil
			}
			for i, b := range x.Bindings {
				if b != ssa.Value(al) || i >= len(fn.FreeVars) {
					continue
				}
				fv := fn.FreeVars[i]
				if fv.Referrers() == nil {
					continue
				}
				for _, fr := range *fv.Referrers() {
					switch y := fr.(type) {
					case *ssa.UnOp, *ssa.DebugRef:
					case *ssa.Store:
						_ = y
						return nil
					default:
						return nil
					}
				}
			}
		default:
			return nil
		}
	}
	return found
}

// fieldCallbackName: a function held in a field of a struct reached from a parameter or the
// receiver (t.hash), named by the field. Only used when the contract declares it `purecallback`.
func fieldCallbackName(v ssa.Value) (string, bool) {
	x, ok := v.(*ssa.UnOp)
	if !ok {
		return "", false
	}
		if fa, ok := x.X.(*ssa.FieldAddr); ok && x.Op == token.MUL {
			if _, ok := U(x.Type()).(*types.Signature); ok {
				if pt, ok := U(fa.X.Type()).(*types.Pointer); ok {
					if stt, ok := U(pt.Elem()).(*types.Struct); ok && fa.Field < stt.NumFields() {
						base := fa.X
						for {
							if inner, ok := base.(*ssa.FieldAddr); ok {
								base = inner.X
								continue
							}
							break
						}
						if _, isParam := base.(*ssa.Parameter); isParam {
							return stt.Field(fa.Field).Name(), true
						}
					}
				}
			}
		}
	return "", false
}

// pureCallbackApp: the value of a pure callback as an uninterpreted function of the function
// value, its non-pointer arguments and the pointees of its pointer arguments.
func (vc *VC) pureCallbackApp(st *State, fn Term, vals []ssa.Value, args []Term, res Sort) (Term, bool) {
	all := []Term{fn}
	for i, a := range args {
		if i < len(vals) {
			if pt, ok := U(vals[i].Type()).(*types.Pointer); ok && !vc.tt.isAggregate(pt.Elem()) {
				v, err := vc.loadRaw(st, a, pt.Elem())
				if err != nil {
					return Term{}, false
				}
				all = append(all, v)
				continue
			}
		}
		all = append(all, a)
	}
	return vc.cbApp(all, res), true
}

func (vc *VC) cbApp(all []Term, res Sort) Term {
	name := "cbapp"
	sorts := make([]Sort, len(all))
	for i, a := range all {
		sorts[i] = a.Sort
		if i > 0 {
			name += "!" + sanitize(string(a.Sort))
		}
	}
	name += "!!" + sanitize(string(res))
	vc.DeclareFun(name, sorts, res)
	return App(res, name, all...)
}

// resultIsParam: the contract has an unconditional clause `result<i> == p` for a parameter p.
func resultIsParam(c *FuncContract, i, n int, names []string, args []Term, srt Sort) (Term, bool) {
	isRes := func(e *Expr) bool {
		return e.Kind == EIdent && (e.Name == fmt.Sprintf("result%d", i) || (n == 1 && e.Name == "result"))
	}
	param := func(e *Expr) (Term, bool) {
		if e.Kind != EIdent {
			return Term{}, false
		}
		for k, nm := range names {
			if nm == e.Name && args[k].Sort == srt {
				return args[k], true
			}
		}
		return Term{}, false
	}
	var scan func(e *Expr) (Term, bool)
	scan = func(e *Expr) (Term, bool) {
		if e.Kind == EBinary && e.Op == "&&" {
			if t, ok := scan(e.Args[0]); ok {
				return t, true
			}
			return scan(e.Args[1])
		}
		if e.Kind == EBinary && e.Op == "==" {
			if isRes(e.Args[0]) {
				return param(e.Args[1])
			}
			if isRes(e.Args[1]) {
				return param(e.Args[0])
			}
		}
		return Term{}, false
	}
	for _, en := range c.Ensures {
		if t, ok := scan(en.E); ok {
			return t, true
		}
	}
	return Term{}, false
}

// markEffectFree: an ensures clause of the form effectfree(x) [&& ...] declares the function
// value x (typically a result: a closer, a release function) to have no effect on the heap.
func markEffectFree(vc *VC, e *Expr, env *SpecEnv) {
	if e.Kind == EBinary && e.Op == "&&" {
		markEffectFree(vc, e.Args[0], env)
		markEffectFree(vc, e.Args[1], env)
		return
	}
	if e.Kind == ECall && e.Args[0].Kind == EIdent && e.Args[0].Name == "effectfree" && len(e.Args) == 2 {
		if v, err := env.Eval(e.Args[1]); err == nil && v.T.Sort == SFunc {
			if vc.effectFreeFuncs == nil {
				vc.effectFreeFuncs = map[string]bool{}
			}
			vc.effectFreeFuncs[v.T.S] = true
		}
	}
}

// shadowKeyOf: the key under which a calling package's local (extern) declaration of the function
// that contract c belongs to would be registered.
func shadowKeyOf(c *FuncContract) string {
	if c.Kind == "extern" {
		return "\x00none"
	}
	return c.PkgPath + "." + c.Key
}

// rangeIndexAt: the value of the compiler-generated index of the innermost slice-range loop
// that contains block b (go/ssa names its header phi "rangeindex").
func (fr *Frame) rangeIndexAt(b *ssa.BasicBlock) (SpecVal, bool) {
	var best *loopInfo
	var bestPhi *ssa.Phi
	for h, li := range fr.loops {
		if !li.blocks[b] {
			continue
		}
		var phi *ssa.Phi
		for _, in := range h.Instrs {
			p, ok := in.(*ssa.Phi)
			if !ok {
				break
			}
			if p.Comment == "rangeindex" {
				phi = p
			}
		}
		if phi == nil {
			continue
		}
		if best == nil || len(li.blocks) < len(best.blocks) {
			best, bestPhi = li, phi
		}
	}
	if best == nil {
		return SpecVal{}, false
	}
	t, ok := fr.vals[bestPhi]
	if !ok {
		return SpecVal{}, false
	}
	return SpecVal{T: t, Ty: bestPhi.Type()}, true
}
