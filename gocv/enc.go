package main

import (
	"math/big"
	"fmt"
	"go/token"
	"go/types"
	"sort"
	"strings"

	"golang.org/x/tools/go/ssa"
)

const maxInlineDepth = 4

type retSite struct {
	st   *State
	vals []Term
	blk  *ssa.BasicBlock // the block of the return instruction (locals in scope for per-site clauses)
}

type loopInfo struct {
	header  *ssa.BasicBlock
	blocks  map[*ssa.BasicBlock]bool
	spec    *LoopSpec
	ordinal int
	// snapshot at the header after havoc, for preserve/decreases
	hdrState *State
	phiHavoc map[*ssa.Phi]Term
	preState *State
	measure  Term
	// head heaps whose cells outside the root modifies clause were kept by the havoc; every
	// back edge must show they are still unchanged there (the loop frame invariant).
	frameHeads map[Sort]Term
	frameAll   bool // the loop body may write any heap sort: the back-edge check covers all of them
	// under-approximating mode with unrolling: the states (and source blocks) that reached a back
	// edge in the iteration being encoded
	unrollBack      []*State
	unrollBackPreds []*ssa.BasicBlock
}

type Frame struct {
	vc       *VC
	fn       *ssa.Function
	contract *FuncContract
	path     string
	depth    int
	stack    []*ssa.Function
	vals     map[ssa.Value]Term
	tuples   map[ssa.Value][]Term
	entry    *State
	edges    map[[2]int]*State
	rets     []retSite
	loops    map[*ssa.BasicBlock]*loopInfo
	order    []*ssa.BasicBlock
	defers   []*ssa.Defer
	// source-name resolution
	dbg map[string][]dbgRef
	// closure bindings (free variables) when inlined
	freeVars map[*ssa.FreeVar]Term
}

type dbgRef struct {
	v      ssa.Value
	isAddr bool
	block  *ssa.BasicBlock
}

func (vc *VC) newFrame(fn *ssa.Function, c *FuncContract, path string, depth int, stack []*ssa.Function) *Frame {
	fr := &Frame{vc: vc, fn: fn, contract: c, path: path, depth: depth, stack: append(append([]*ssa.Function{}, stack...), fn),
		vals: map[ssa.Value]Term{}, tuples: map[ssa.Value][]Term{}, edges: map[[2]int]*State{}, loops: map[*ssa.BasicBlock]*loopInfo{},
		dbg: map[string][]dbgRef{}, freeVars: map[*ssa.FreeVar]Term{}}
	for _, b := range fn.Blocks {
		for _, in := range b.Instrs {
			if d, ok := in.(*ssa.DebugRef); ok {
				if id, ok := d.Expr.(interface{ String() string }); ok {
					_ = id
				}
				if obj := d.Object(); obj != nil {
					// a selected field is not a local variable of that name
					if fv, isVar := obj.(*types.Var); isVar && fv.IsField() {
						continue
					}
					fr.dbg[obj.Name()] = append(fr.dbg[obj.Name()], dbgRef{d.X, d.IsAddr, b})
				}
			}
		}
	}
	return fr
}

func (fr *Frame) oblName(kind, detail string) string {
	p := ""
	if fr.path != "" {
		p = fr.path + "/"
	}
	return fmt.Sprintf("%s:%s%s", kind, p, detail)
}

func (fr *Frame) pos(p token.Pos) token.Position {
	return fr.vc.ctx.prog.Fset.Position(p)
}

// value returns the term of an SSA value.
func (fr *Frame) value(v ssa.Value) (Term, error) {
	if t, ok := fr.vals[v]; ok {
		return t, nil
	}
	vc := fr.vc
	switch x := v.(type) {
	case *ssa.Const:
		return vc.constTerm(x.Value, x.Type())
	case *ssa.Global:
		if obj, ok := x.Object().(*types.Var); ok {
			return vc.globalAddr(obj), nil
		}
		return Term{}, fmt.Errorf("global %s without object", x.Name())
	case *ssa.Function:
		return vc.funcValue(x), nil
	case *ssa.FreeVar:
		if t, ok := fr.freeVars[x]; ok {
			return t, nil
		}
		return Term{}, fmt.Errorf("unbound free variable %s", x.Name())
	case *ssa.Builtin:
		return Term{}, fmt.Errorf("builtin %s used as value", x.Name())
	}
	return Term{}, fmt.Errorf("value %s (%T) not defined", v.Name(), v)
}

func (vc *VC) funcValue(f *ssa.Function) Term {
	name := "fn!" + sanitize(f.String())
	vc.DeclareFun(name, nil, SFunc)
	return Term{name, SFunc}
}

// recvElemTypes lists the element types of the channels received from inside loop li.
func (fr *Frame) recvElemTypes(li *loopInfo) []types.Type {
	var out []types.Type
	for _, b := range fr.fn.Blocks {
		if !li.blocks[b] {
			continue
		}
		for _, in := range b.Instrs {
			switch x := in.(type) {
			case *ssa.Select:
				for _, ss := range x.States {
					if ss.Dir == types.RecvOnly {
						out = append(out, U(ss.Chan.Type()).(*types.Chan).Elem())
					}
				}
			case *ssa.UnOp:
				if x.Op == token.ARROW {
					out = append(out, U(x.X.Type()).(*types.Chan).Elem())
				}
			}
		}
	}
	return out
}

// recvAssume applies the contract's recvfrom assumptions to a received value.
func (fr *Frame) recvAssume(st *State, ch ssa.Value, val Term, elem types.Type) {
	vc := fr.vc
	if fr.contract == nil {
		return
	}
	for _, rs := range fr.contract.Recvs {
		if chanExprName(ch) != rs.Chan {
			continue
		}
		env := fr.baseEnv(st)
		env.vars["value"] = SpecVal{T: val, Ty: elem}
		t, err := env.EvalBool(rs.Clause.E)
		if err != nil {
			vc.note("contract error: recvfrom %s: %v", rs.Chan, err)
			continue
		}
		st.assume(t)
		vc.assume("values received from channel " + rs.Chan + " in " + fr.fn.Name() + " satisfy: " + rs.Clause.Src)
	}
}

// chanExprName: the source-level name of a channel operand - a parameter (ch), a field reached
// from one (s.unitsChan), a captured variable (*ch) - or "" when it has none.
func chanExprName(v ssa.Value) string {
	switch x := v.(type) {
	case *ssa.Parameter:
		return x.Name()
	case *ssa.FreeVar:
		return x.Name()
	case *ssa.UnOp:
		if x.Op != token.MUL {
			return ""
		}
		switch y := x.X.(type) {
		case *ssa.FieldAddr:
			base := chanExprName(y.X)
			if base == "" {
				return ""
			}
			st, ok := U(U(y.X.Type()).(*types.Pointer).Elem()).(*types.Struct)
			if !ok {
				return ""
			}
			return base + "." + st.Field(y.Field).Name()
		case *ssa.FreeVar:
			return "*" + y.Name()
		}
	}
	return ""
}

// strOfBytes: string(b) as an uninterpreted function of the slice header. The bytes are assumed
// not to be overwritten between two conversions of the same slice within one function.
func (vc *VC) strOfBytes(st *State, b Term) Term {
	vc.DeclareFun("bytesstr", []Sort{SSlice}, SStr)
	r := App(SStr, "bytesstr", b)
	st.assume(Eq(App(SInt, "strlen", r), SLen(b)))
	vc.assume("string(b) is modelled as a function of the slice header: the bytes are assumed unchanged between conversions of the same slice within one function")
	return r
}

// strBytes: the byte slice of a string value, as an uninterpreted function with the obvious length.
func (vc *VC) strBytes(st *State, s Term) Term {
	vc.DeclareFun("strbytes", []Sort{SStr}, SSlice)
	r := App(SSlice, "strbytes", s)
	st.assume(And(Eq(SLen(r), App(SInt, "strlen", s)), Eq(SCap(r), App(SInt, "strlen", s)), Lt(Rid(SBase(r)), IntLit(0)), Eq(Roff(SBase(r)), IntLit(0))))
	vc.assume("[]byte(s) is modelled as a function of the string value and its result as immutable")
	return r
}

// bumpRecv increments the ghost receive counter of channel ch when cond holds.
func (vc *VC) bumpRecv(st *State, ch Term, cond Term, elem types.Type) {
	cur := vc.recvCounts(st, elem)
	st.ghost[vc.recvKey(elem)] = vc.Define("chrecv", Store(cur, Rid(ch), Add(Select(cur, Rid(ch)), Ite(cond, IntLit(1), IntLit(0)))))
}

// channels of different element types are different objects: one counter array per element type
func (vc *VC) recvKey(elem types.Type) string { return fmt.Sprintf("chrecv!%d", vc.tt.TID(elem)) }

func (vc *VC) recvCounts(st *State, elem types.Type) Term {
	if t, ok := st.ghost[vc.recvKey(elem)]; ok {
		return t
	}
	name := "G0!" + vc.recvKey(elem)
	if !vc.heapInit[name] {
		vc.heapInit[name] = true
		vc.emitf("(declare-const %s (Array Int Int))\n", name)
	}
	return Term{name, SArray(SInt, SInt)}
}

// sentinel: package-level error variables named Err* are modelled as immutable,
// non-nil, pairwise distinct constants (recorded as an assumption).
func (vc *VC) sentinel(obj *types.Var) (Term, bool) {
	if obj.Pkg() == nil || obj.Parent() != obj.Pkg().Scope() {
		return Term{}, false
	}
	if !strings.HasPrefix(obj.Name(), "Err") && !strings.HasPrefix(obj.Name(), "err") {
		return Term{}, false
	}
	_, isIface := U(obj.Type()).(*types.Interface)
	_, isPtr := U(obj.Type()).(*types.Pointer)
	if !isIface && !isPtr {
		return Term{}, false
	}
	name := "sentinel!" + sanitize(obj.Pkg().Path()+"."+obj.Name())
	if isPtr {
		if !vc.uf[name] {
			vc.DeclareFun(name, nil, SRef)
			vc.axioms = append(vc.axioms, fmt.Sprintf("(< (rid %s) 0)", name))
			vc.axioms = append(vc.axioms, fmt.Sprintf("(= (roff %s) 0)", name))
			for _, o := range vc.sentinelsP {
				vc.axioms = append(vc.axioms, fmt.Sprintf("(distinct %s %s)", name, o))
			}
			vc.sentinelsP = append(vc.sentinelsP, name)
			vc.assume("package-level error sentinels (Err*) are immutable, non-nil and pairwise distinct")
		}
		return Term{name, SRef}, true
	}
	if !vc.uf[name] {
		vc.DeclareFun(name, nil, SIface)
		vc.axioms = append(vc.axioms, fmt.Sprintf("(not (= (itag %s) 0))", name))
		vc.axioms = append(vc.axioms, fmt.Sprintf("(< (rid (iref %s)) 0)", name))
		vc.axioms = append(vc.axioms, fmt.Sprintf("(not (boxedtag (itag %s)))", name))
		for _, o := range vc.sentinels {
			vc.axioms = append(vc.axioms, fmt.Sprintf("(distinct %s %s)", name, o))
		}
		vc.sentinels = append(vc.sentinels, name)
		vc.assume("package-level error sentinels (Err*) are immutable, non-nil, pairwise distinct and of pointer dynamic type (compared by identity)")
	}
	return Term{name, SIface}, true
}

func (vc *VC) globalAddr(obj *types.Var) Term {
	id := vc.ctx.globalID(obj)
	return MkRef(IntLit(-int64(id)), IntLit(0))
}

// ---------------------------------------------------------------------------
// CFG helpers

func backEdge(from, to *ssa.BasicBlock) bool { return to.Dominates(from) }

func (fr *Frame) rpo() []*ssa.BasicBlock {
	seen := map[*ssa.BasicBlock]bool{}
	var post []*ssa.BasicBlock
	var dfs func(b *ssa.BasicBlock)
	dfs = func(b *ssa.BasicBlock) {
		seen[b] = true
		for _, s := range b.Succs {
			if backEdge(b, s) || seen[s] {
				continue
			}
			dfs(s)
		}
		post = append(post, b)
	}
	dfs(fr.fn.Blocks[0])
	if fr.fn.Recover != nil && !seen[fr.fn.Recover] {
		// recover block is only reachable through a recovered panic: not modelled
	}
	for i, j := 0, len(post)-1; i < j; i, j = i+1, j-1 {
		post[i], post[j] = post[j], post[i]
	}
	return post
}

func (fr *Frame) findLoops() {
	ord := 0
	for _, h := range fr.fn.Blocks {
		var tails []*ssa.BasicBlock
		for _, p := range h.Preds {
			if backEdge(p, h) {
				tails = append(tails, p)
			}
		}
		if len(tails) == 0 {
			continue
		}
		ord++
		li := &loopInfo{header: h, blocks: map[*ssa.BasicBlock]bool{h: true}, ordinal: ord}
		var work []*ssa.BasicBlock
		for _, t := range tails {
			if !li.blocks[t] {
				li.blocks[t] = true
				work = append(work, t)
			}
		}
		for len(work) > 0 {
			b := work[len(work)-1]
			work = work[:len(work)-1]
			for _, p := range b.Preds {
				if !li.blocks[p] {
					li.blocks[p] = true
					work = append(work, p)
				}
			}
		}
		if fr.depth > 0 && fr.vc.contract != nil && li.spec == nil {
			// a loop of an inlined callee or closure: the root contract may carry its invariant
			// under the key "<function name>/<ordinal>" (names resolve in the callee's scope,
			// old() refers to the callee's entry)
			if ls, ok := fr.vc.contract.Loops[fr.fn.Name()+"/"+fmt.Sprint(ord)]; ok {
				li.spec = ls
			}
		}
		if fr.contract != nil && li.spec == nil {
			if ls, ok := fr.contract.Loops[fmt.Sprint(ord)]; ok {
				li.spec = ls
			} else {
				for _, in := range h.Instrs {
					if phi, ok := in.(*ssa.Phi); ok {
						if ls, ok := fr.contract.Loops[phi.Comment]; ok {
							li.spec = ls
							break
						}
					}
				}
			}
		}
		fr.loops[h] = li
	}
}

// ---------------------------------------------------------------------------
// Body encoding

// encodeBody symbolically executes the function from the entry state. Results
// are collected in fr.rets.
func (fr *Frame) encodeBody(entry *State) error {
	vc := fr.vc
	fr.entry = entry.clone()
	if len(fr.fn.Blocks) == 0 {
		return fmt.Errorf("function %s has no body", fr.fn)
	}
	fr.findLoops()
	order := fr.rpo()
	fr.order = order
	done := map[*ssa.BasicBlock]bool{}
	for _, b := range order {
		if done[b] {
			continue
		}
		ins, inPreds := fr.inStates(b, entry)
		if li, ok := fr.loops[b]; ok && vc.ctx.firstIter && vc.ctx.unroll > 1 {
			if err := fr.unrollLoop(li, ins, inPreds, done); err != nil {
				return err
			}
			continue
		}
		if err := fr.encodeBlock(b, ins, inPreds, false); err != nil {
			return err
		}
	}
	return nil
}

// inStates: the states on the (non-back) edges into b that have been encoded, with their source
// blocks; the function's entry state for block 0.
func (fr *Frame) inStates(b *ssa.BasicBlock, entry *State) ([]*State, []*ssa.BasicBlock) {
	var ins []*State
	var inPreds []*ssa.BasicBlock
	if b.Index == 0 && entry != nil {
		ins = append(ins, entry.clone())
		inPreds = append(inPreds, nil)
	}
	for _, p := range b.Preds {
		if backEdge(p, b) {
			continue
		}
		if st, ok := fr.edges[[2]int{p.Index, b.Index}]; ok {
			ins = append(ins, st)
			inPreds = append(inPreds, p)
		}
	}
	return ins, inPreds
}

// encodeBlock encodes one basic block entered from the given states. unrolledHeader: b is a loop
// header entered for one iteration of an unrolled loop (no invariant, no havoc: the phis take the
// values of the edges it is entered by).
func (fr *Frame) encodeBlock(b *ssa.BasicBlock, ins []*State, inPreds []*ssa.BasicBlock, unrolledHeader bool) error {
	vc := fr.vc
	st := vc.mergeStates(ins)
	// phis
	var phis []*ssa.Phi
	for _, in := range b.Instrs {
		if phi, ok := in.(*ssa.Phi); ok {
			phis = append(phis, phi)
		} else {
			break
		}
	}
	phiEntry := map[*ssa.Phi]Term{}
	for _, phi := range phis {
		var t Term
		first := true
		for i := len(ins) - 1; i >= 0; i-- {
			p := inPreds[i]
			if p == nil {
				continue
			}
			var ev Term
			var err error
			for k, pp := range b.Preds {
				if pp == p {
					ev, err = fr.value(phi.Edges[k])
					break
				}
			}
			if err != nil {
				return fr.unsupportedErr(phi, err)
			}
			if first {
				t = ev
				first = false
			} else if i < len(st.mergeSels) {
				t = Ite(st.mergeSels[i], ev, t)
			} else {
				t = Ite(ins[i].reach, ev, t)
			}
		}
		if first {
			// unreachable block
			srt, err := vc.tt.SortOf(phi.Type())
			if err != nil {
				return fr.unsupportedErr(phi, err)
			}
			t = vc.Fresh("dead", srt)
		}
		phiEntry[phi] = vc.Define(phi.Name(), t)
	}
	if li, ok := fr.loops[b]; ok && !unrolledHeader {
		if err := fr.enterLoop(li, st, phis, phiEntry); err != nil {
			return err
		}
		st = li.hdrState.clone()
	} else {
		if li, ok := fr.loops[b]; ok {
			li.preState = st.clone()
			li.hdrState = st.clone()
			li.phiHavoc = map[*ssa.Phi]Term{}
			for _, phi := range phis {
				li.phiHavoc[phi] = phiEntry[phi]
			}
		}
		for _, phi := range phis {
			fr.vals[phi] = phiEntry[phi]
		}
	}
	// instructions
	for _, in := range b.Instrs {
		if _, ok := in.(*ssa.Phi); ok {
			continue
		}
		done, err := fr.instr(st, b, in)
		if err != nil {
			return err
		}
		if done {
			break
		}
	}
	return nil
}

// unrollLoop: the under-approximation with unrolling (used only to decide refutations in a function
// whose contract no longer fits its loops). The loop is entered without invariant or havoc and its
// body is encoded up to K times, each time from the states that reached a back edge in the copy
// before; the paths still inside after the K-th copy are dropped. Every path that remains is a real
// path of the function (callees by contract). Values defined in the loop and used after it are
// those of the copy in which the loop was left.
func (fr *Frame) unrollLoop(li *loopInfo, ins []*State, inPreds []*ssa.BasicBlock, done map[*ssa.BasicBlock]bool) error {
	vc := fr.vc
	vc.nondet = true
	var body []*ssa.BasicBlock
	for _, b := range fr.order {
		if li.blocks[b] {
			body = append(body, b)
		}
	}
	blockAt := func(i int) *ssa.BasicBlock { return fr.fn.Blocks[i] }
	var defined []ssa.Value
	for _, b := range body {
		for _, in := range b.Instrs {
			if v, ok := in.(ssa.Value); ok {
				defined = append(defined, v)
			}
		}
	}
	exits := map[[2]int][]*State{}
	var exitKeys [][2]int
	var leftIn []Term
	var valSnaps []map[ssa.Value]Term
	var tupSnaps []map[ssa.Value][]Term
	curIns, curPreds := ins, inPreds
	for it := 1; it <= vc.ctx.unroll && len(curIns) > 0; it++ {
		li.unrollBack, li.unrollBackPreds = nil, nil
		iterDone := map[*ssa.BasicBlock]bool{}
		for _, b := range body {
			if iterDone[b] {
				continue
			}
			if b == li.header {
				if err := fr.encodeBlock(b, curIns, curPreds, true); err != nil {
					return err
				}
				continue
			}
			bins, bpreds := fr.inStates(b, nil)
			if inner, ok := fr.loops[b]; ok {
				if err := fr.unrollLoop(inner, bins, bpreds, iterDone); err != nil {
					return err
				}
				continue
			}
			if err := fr.encodeBlock(b, bins, bpreds, false); err != nil {
				return err
			}
		}
		// the edges that leave the loop in this copy; the edges inside it are forgotten
		var keys [][2]int
		for k := range fr.edges {
			keys = append(keys, k)
		}
		sort.Slice(keys, func(i, j int) bool {
			if keys[i][0] != keys[j][0] {
				return keys[i][0] < keys[j][0]
			}
			return keys[i][1] < keys[j][1]
		})
		var leave []Term
		for _, k := range keys {
			from, to := blockAt(k[0]), blockAt(k[1])
			if !li.blocks[from] {
				continue
			}
			if !li.blocks[to] {
				if _, seen := exits[k]; !seen {
					exitKeys = append(exitKeys, k)
				}
				exits[k] = append(exits[k], fr.edges[k])
				leave = append(leave, fr.edges[k].reach)
			}
			delete(fr.edges, k)
		}
		leftIn = append(leftIn, vc.Define("left", Or(append([]Term{False}, leave...)...)))
		vs := map[ssa.Value]Term{}
		ts := map[ssa.Value][]Term{}
		for _, v := range defined {
			if t, ok := fr.vals[v]; ok {
				vs[v] = t
			}
			if tp, ok := fr.tuples[v]; ok {
				ts[v] = tp
			}
		}
		valSnaps = append(valSnaps, vs)
		tupSnaps = append(tupSnaps, ts)
		curIns, curPreds = li.unrollBack, li.unrollBackPreds
	}
	li.unrollBack, li.unrollBackPreds = nil, nil
	for _, k := range exitKeys {
		fr.edges[k] = vc.mergeStates(exits[k])
	}
	n := len(valSnaps)
	for _, v := range defined {
		var t Term
		have := false
		for i := n - 1; i >= 0; i-- {
			ti, ok := valSnaps[i][v]
			if !ok {
				continue
			}
			if !have {
				t, have = ti, true
			} else if ti.Sort == t.Sort {
				t = Ite(leftIn[i], ti, t)
			}
		}
		if have {
			fr.vals[v] = t
		}
		var tp []Term
		haveT := false
		for i := n - 1; i >= 0; i-- {
			ti, ok := tupSnaps[i][v]
			if !ok {
				continue
			}
			if !haveT {
				tp, haveT = append([]Term{}, ti...), true
			} else if len(ti) == len(tp) {
				for j := range tp {
					if ti[j].Sort == tp[j].Sort {
						tp[j] = Ite(leftIn[i], ti[j], tp[j])
					}
				}
			}
		}
		if haveT {
			fr.tuples[v] = tp
		}
	}
	for _, b := range body {
		done[b] = true
	}
	return nil
}

func (fr *Frame) unsupportedErr(in ssa.Instruction, err error) error {
	return fmt.Errorf("%s: %s: %v", fr.pos(in.Pos()), in.String(), err)
}

func (fr *Frame) setEdge(from, to *ssa.BasicBlock, st *State) error {
	if backEdge(from, to) {
		return fr.loopBackEdge(fr.loops[to], from, st)
	}
	fr.edges[[2]int{from.Index, to.Index}] = st
	return nil
}

// safety obligation + assumption
func (fr *Frame) safe(st *State, kind string, cond Term, in ssa.Instruction, descr string) {
	vc := fr.vc
	if cond.S == "true" {
		return
	}
	if !vc.nosafe && !vc.nosafeKinds[kind] {
		n := vc.ordinal("safe:" + fr.path + kind)
		vc.addObl(&Obligation{Name: fr.oblName("safe", fmt.Sprintf("%s@%d", kind, n)), Kind: "safe", Reach: st.reach, Cond: cond,
			Taint: st.taint, Pos: fr.pos(in.Pos()), Descr: descr})
	}
	st.assume(cond)
}

// instr executes one instruction; returns done=true after a terminator.
func (fr *Frame) instr(st *State, b *ssa.BasicBlock, in ssa.Instruction) (bool, error) {
	vc := fr.vc
	def := func(v ssa.Value, t Term) {
		fr.vals[v] = vc.Define(v.Name(), t)
	}
	havocValue := func(v ssa.Value, why string) error {
		vc.note("%s: %s: %s", fr.pos(in.Pos()), in.String(), why)
		vc.nondet = true
		st.taint = True
		if tup, ok := v.Type().(*types.Tuple); ok {
			var ts []Term
			for i := 0; i < tup.Len(); i++ {
				srt, err := vc.tt.SortOf(tup.At(i).Type())
				if err != nil {
					return fr.unsupportedErr(in, err)
				}
				f := vc.Fresh(v.Name(), srt)
				st.assume(vc.rangeAssumption(f, tup.At(i).Type(), st.alloc))
				ts = append(ts, f)
			}
			fr.tuples[v] = ts
			return nil
		}
		srt, err := vc.tt.SortOf(v.Type())
		if err != nil {
			return fr.unsupportedErr(in, err)
		}
		f := vc.Fresh(v.Name(), srt)
		st.assume(vc.rangeAssumption(f, v.Type(), st.alloc))
		fr.vals[v] = f
		return nil
	}
	switch x := in.(type) {
	case *ssa.DebugRef:
		return false, nil
	case *ssa.BinOp:
		a, err := fr.value(x.X)
		if err != nil {
			return false, fr.unsupportedErr(in, err)
		}
		c, err := fr.value(x.Y)
		if err != nil {
			return false, fr.unsupportedErr(in, err)
		}
		if _, isIface := U(x.X.Type()).(*types.Interface); isIface && a.Sort == SIface && c.Sort == SIface && (x.Op == token.EQL || x.Op == token.NEQ) {
			eq := fr.ifaceEq(st, x.X, x.Y, a, c)
			if x.Op == token.NEQ {
				eq = Not(eq)
			}
			def(x, eq)
			break
		}
		r, safe, err := vc.binop(x.Op, a, c, x.X.Type(), x.Y.Type())
		if err != nil {
			return false, havocValue(x, err.Error())
		}
		kind := "div0"
		if x.Op == token.SHL || x.Op == token.SHR {
			kind = "shift"
		}
		fr.safe(st, kind, safe, in, "division by zero / negative shift")
		def(x, r)
	case *ssa.UnOp:
		a, err := fr.value(x.X)
		if err != nil {
			return false, fr.unsupportedErr(in, err)
		}
		switch x.Op {
		case token.NOT:
			def(x, Not(a))
		case token.SUB:
			w, s, ok := isIntType(x.Type())
			if !ok {
				return false, havocValue(x, "negation of non-integer")
			}
			if vc.mode == ModeBV {
				def(x, App(a.Sort, "bvneg", a))
			} else {
				def(x, vc.wrap(App(SInt, "-", a), w, s))
			}
		case token.XOR:
			w, s, ok := isIntType(x.Type())
			if !ok {
				return false, havocValue(x, "complement of non-integer")
			}
			if vc.mode == ModeBV {
				def(x, App(a.Sort, "bvnot", a))
			} else if s {
				def(x, Sub(App(SInt, "-", a), IntLit(1)))
			} else {
				def(x, Sub(IntLitBig(new(bigInt).Sub(pow2(w), bigOne)), a))
			}
		case token.MUL: // load
			if g, ok := x.X.(*ssa.Global); ok {
				if obj, ok := g.Object().(*types.Var); ok {
					if t, ok := vc.sentinel(obj); ok {
						fr.vals[x] = t
						break
					}
				}
			}
			pt := U(x.X.Type()).(*types.Pointer)
			if !derivedAddr(x.X) {
				fr.safe(st, "nil", Neq(Rid(a), IntLit(0)), in, "nil pointer dereference")
			}
			v, err := vc.loadAt(st, a, pt.Elem())
			if err != nil {
				return false, havocValue(x, err.Error())
			}
			fr.vals[x] = v
		case token.ARROW:
			// channel receive: an unconstrained value; the ghost receive counter of the channel is bumped
			vc.nondet = true
			elem := U(x.X.Type()).(*types.Chan).Elem()
			srt, err := vc.tt.SortOf(elem)
			if err != nil {
				return false, havocValue(x, "channel receive of unsupported element type")
			}
			val := vc.Fresh(x.Name(), srt)
			st.assume(vc.rangeAssumption(val, elem, st.alloc))
			okv := True
			if x.CommaOk {
				okv = vc.Fresh(x.Name()+"ok", SBool)
				fr.tuples[x] = []Term{val, okv}
			} else {
				fr.vals[x] = val
			}
			vc.bumpRecv(st, a, True, elem)
			fr.recvAssume(st, x.X, val, elem)
			vc.assume("channel operations: a receive yields an unconstrained value, sends are effect-free; blocking, buffering and the communicating partner are not modelled")
		default:
			return false, havocValue(x, "unsupported unary op")
		}
	case *ssa.Alloc:
		el := U(x.Type()).(*types.Pointer).Elem()
		r := vc.allocObject(st, el)
		z, err := vc.zeroValue(el)
		if err != nil {
			return false, fr.unsupportedErr(in, err)
		}
		if arr, ok := U(el).(*types.Array); ok && arr.Len() > maxUnroll {
			if err := vc.zeroFill(st, r, el); err != nil {
				return false, fr.unsupportedErr(in, err)
			}
		} else if err := vc.storeAt(st, r, el, z); err != nil {
			return false, fr.unsupportedErr(in, err)
		}
		fr.vals[x] = vc.Define(x.Name(), r)
		if addrPrivate(x, true) && !vc.tt.isAggregateTooLarge(el) {
			// a local whose address never leaves the function (only loads, stores and field
			// addressing): no callee can write it, whatever its frame clause says
			vc.captured = append(vc.captured, capturedCell{fr.vals[x], el, x})
		}
	case *ssa.Store:
		a, err := fr.value(x.Addr)
		if err != nil {
			return false, fr.unsupportedErr(in, err)
		}
		v, err := fr.value(x.Val)
		if err != nil {
			return false, fr.unsupportedErr(in, err)
		}
		pt := U(x.Addr.Type()).(*types.Pointer)
		if !derivedAddr(x.Addr) {
			fr.safe(st, "nil", Neq(Rid(a), IntLit(0)), in, "nil pointer dereference (store)")
		}
		if err := vc.storeAt(st, a, pt.Elem(), v); err != nil {
			vc.note("%s: %v", fr.pos(in.Pos()), err)
			st.taint = True
			vc.havocAll(st)
		}
	case *ssa.FieldAddr:
		a, err := fr.value(x.X)
		if err != nil {
			return false, fr.unsupportedErr(in, err)
		}
		stt := U(U(x.X.Type()).(*types.Pointer).Elem()).(*types.Struct)
		fr.safe(st, "nil", Neq(Rid(a), IntLit(0)), in, "nil pointer dereference (field)")
		r := RefAdd(a, IntLit(vc.tt.FieldOffset(stt, x.Field)))
		r = vc.Define(x.Name(), r)
		st.assume(Eq(App(SInt, "dyn", r), IntLit(int64(vc.tt.TID(stt.Field(x.Field).Type())))))
		fr.vals[x] = r
	case *ssa.Field:
		a, err := fr.value(x.X)
		if err != nil {
			return false, fr.unsupportedErr(in, err)
		}
		srt, err := vc.tt.SortOf(x.X.Type())
		if err != nil {
			return false, fr.unsupportedErr(in, err)
		}
		stt := U(x.X.Type()).(*types.Struct)
		fs, err := vc.tt.SortOf(stt.Field(x.Field).Type())
		if err != nil {
			return false, fr.unsupportedErr(in, err)
		}
		def(x, App(fs, structFieldAccessor(srt, x.Field), a))
	case *ssa.IndexAddr:
		a, err := fr.value(x.X)
		if err != nil {
			return false, fr.unsupportedErr(in, err)
		}
		i, err := fr.value(x.Index)
		if err != nil {
			return false, fr.unsupportedErr(in, err)
		}
		idx := vc.toIndex(i, x.Index.Type())
		var r, ln Term
		var elem types.Type
		switch u := U(x.X.Type()).(type) {
		case *types.Slice:
			elem = u.Elem()
			ln = SLen(a)
			r = ElemAddr(SBase(a), idx, vc.tt.Slots(elem))
		case *types.Pointer:
			if _, opq := vc.tt.isOpaque(u.Elem()); opq {
				return false, havocValue(x, "index into a value of opaque type")
			}
			arr := U(u.Elem()).(*types.Array)
			elem = arr.Elem()
			ln = IntLit(arr.Len())
			fr.safe(st, "nil", Neq(Rid(a), IntLit(0)), in, "nil array pointer")
			r = ElemAddr(RefAdd(a, IntLit(1)), idx, vc.tt.Slots(elem))
		default:
			return false, fr.unsupportedErr(in, fmt.Errorf("IndexAddr on %s", x.X.Type()))
		}
		fr.safe(st, "index", And(Le(IntLit(0), idx), Lt(idx, ln)), in, "index out of range")
		r = vc.Define(x.Name(), r)
		st.assume(Eq(App(SInt, "dyn", r), IntLit(int64(vc.tt.TID(elem)))))
		fr.vals[x] = r
	case *ssa.Index:
		a, err := fr.value(x.X)
		if err != nil {
			return false, fr.unsupportedErr(in, err)
		}
		i, err := fr.value(x.Index)
		if err != nil {
			return false, fr.unsupportedErr(in, err)
		}
		idx := vc.toIndex(i, x.Index.Type())
		if _, opq := vc.tt.isOpaque(x.X.Type()); opq {
			return false, havocValue(x, "index into a value of opaque type")
		}
		switch u := U(x.X.Type()).(type) {
		case *types.Array:
			fr.safe(st, "index", And(Le(IntLit(0), idx), Lt(idx, IntLit(u.Len()))), in, "index out of range")
			def(x, Select(a, idx))
		case *types.Basic: // string
			fr.safe(st, "index", And(Le(IntLit(0), idx), Lt(idx, App(SInt, "strlen", a))), in, "string index out of range")
			vc.DeclareFun("strat", []Sort{SStr, SInt}, SInt)
			ch := App(SInt, "strat", a, idx)
			st.assume(And(Le(IntLit(0), ch), Lt(ch, IntLit(256))))
			def(x, vc.fromIndex(st, ch, x.Type()))
		default:
			return false, havocValue(x, "Index on unsupported type")
		}
	case *ssa.Slice:
		return false, fr.sliceOp(st, x)
	case *ssa.MakeSlice:
		ln, err := fr.value(x.Len)
		if err != nil {
			return false, fr.unsupportedErr(in, err)
		}
		cp, err := fr.value(x.Cap)
		if err != nil {
			return false, fr.unsupportedErr(in, err)
		}
		l := vc.toIndex(ln, x.Len.Type())
		c := vc.toIndex(cp, x.Cap.Type())
		fr.safe(st, "makeslice", And(Le(IntLit(0), l), Le(l, c), Lt(c, IntLitBig(pow2(62)))), in, "makeslice: len out of range")
		elem := U(x.Type()).(*types.Slice).Elem()
		base := vc.allocObject(st, nil)
		if err := vc.zeroFill(st, base, elem); err != nil {
			return false, fr.unsupportedErr(in, err)
		}
		def(x, MkSlice(base, l, c))
	case *ssa.MakeMap:
		r := vc.allocObject(st, nil)
		mt := U(x.Type()).(*types.Map)
		ks, err1 := vc.tt.SortOf(mt.Key())
		vs, err2 := vc.tt.SortOf(mt.Elem())
		if err1 != nil || err2 != nil {
			return false, havocValue(x, "map with unsupported key/value type")
		}
		dom := vc.mapHeap(st, "dom", ks, vs)
		vc.setMapHeap(st, "dom", ks, vs, Store(dom, Rid(r), Term{fmt.Sprintf("((as const %s) false)", SArray(ks, SBool)), SArray(ks, SBool)}))
		lens := vc.mapHeap(st, "len", "", "")
		vc.setMapHeap(st, "len", "", "", Store(lens, Rid(r), IntLit(0)))
		def(x, r)
	case *ssa.Lookup:
		return false, fr.lookup(st, x, havocValue)
	case *ssa.MapUpdate:
		return false, fr.mapUpdate(st, x)
	case *ssa.Convert:
		a, err := fr.value(x.X)
		if err != nil {
			return false, fr.unsupportedErr(in, err)
		}
		_, _, fromInt := isIntType(x.X.Type())
		_, _, toInt := isIntType(x.Type())
		if fromInt && toInt {
			r, err := vc.convertInt(a, x.X.Type(), x.Type())
			if err != nil {
				return false, havocValue(x, err.Error())
			}
			def(x, r)
			break
		}
		fs, err1 := vc.tt.SortOf(x.X.Type())
		ts, err2 := vc.tt.SortOf(x.Type())
		if err1 != nil || err2 != nil {
			return false, havocValue(x, "unsupported conversion")
		}
		if fs == ts {
			def(x, a)
			break
		}
		// string <-> []byte and friends: uninterpreted, content-preserving only by name
		if fs == SSlice && ts == SStr {
			// string(bytes): modelled as a function of the slice header (see strOfBytes)
			fr.vals[x] = vc.strOfBytes(st, a)
			break
		}
		if fs == SStr && ts == SSlice {
			// []byte(s): a copy of the string's bytes. Modelled as a function of the string value
			// (the bytes of equal strings are equal); the result is treated as immutable.
			def(x, vc.strBytes(st, a))
			break
		}
		return false, havocValue(x, fmt.Sprintf("unsupported conversion %s -> %s", x.X.Type(), x.Type()))
	case *ssa.ChangeType:
		a, err := fr.value(x.X)
		if err != nil {
			return false, fr.unsupportedErr(in, err)
		}
		fs, err1 := vc.tt.SortOf(x.X.Type())
		ts, err2 := vc.tt.SortOf(x.Type())
		if err1 != nil || err2 != nil {
			return false, havocValue(x, "ChangeType with unsupported type")
		}
		if fs != ts {
			c, ok := vc.convertStruct(a, x.X.Type(), x.Type())
			if !ok {
				if fs != SRef && ts != SRef && fs != SSlice && ts != SSlice && fs != SIface && ts != SIface {
					// a value conversion between types of identical underlying type that are
					// modelled by different sorts (one of them opaque): the result is a function
					// of the operand, nothing more is known
					name := "chtype!" + sanitize(string(fs)) + "!" + sanitize(string(ts))
					vc.DeclareFun(name, []Sort{fs}, ts)
					def(x, App(ts, name, a))
					break
				}
				return false, havocValue(x, "ChangeType across sorts")
			}
			def(x, c)
			break
		}
		def(x, a)
	case *ssa.ChangeInterface:
		a, err := fr.value(x.X)
		if err != nil {
			return false, fr.unsupportedErr(in, err)
		}
		def(x, a)
	case *ssa.MakeInterface:
		a, err := fr.value(x.X)
		if err != nil {
			return false, fr.unsupportedErr(in, err)
		}
		tag := IntLit(int64(vc.tt.TID(x.X.Type())))
		if a.Sort == SRef {
			def(x, MkIface(tag, a))
		} else {
			box := vc.allocObject(st, nil)
			if err := vc.storeAt(st, box, x.X.Type(), a); err != nil {
				return false, havocValue(x, err.Error())
			}
			def(x, MkIface(tag, box))
		}
	case *ssa.TypeAssert:
		return false, fr.typeAssert(st, x, havocValue)
	case *ssa.Extract:
		tup, ok := fr.tuples[x.Tuple]
		if !ok {
			return false, fr.unsupportedErr(in, fmt.Errorf("tuple %s not defined", x.Tuple.Name()))
		}
		fr.vals[x] = tup[x.Index]
	case *ssa.Call:
		return false, fr.call(st, x, x.Common(), x)
	case *ssa.Defer:
		known := false
		for _, d := range fr.defers {
			if d == x {
				known = true
			}
		}
		if !known {
			fr.defers = append(fr.defers, x)
		}
		// the arguments are evaluated now; remember that this defer is registered on this path
		st.ghost[fr.deferKey(x)] = True
	case *ssa.RunDefers:
		// all defer statements of the function, most recently registered first; one that does not
		// dominate this point runs only on the paths that registered it
		all := fr.allDefers()
		for i := len(all) - 1; i >= 0; i-- {
			d := all[i]
			flag, ok := st.ghost[fr.deferKey(d)]
			if !ok || flag.S == "false" {
				continue
			}
			if d.Block().Dominates(b) || flag.S == "true" {
				if err := fr.call(st, nil, d.Common(), d); err != nil {
					return false, err
				}
				continue
			}
			yes := st.clone()
			yes.assume(flag)
			yes.reach = vc.Define("reach", yes.reach)
			if err := fr.call(yes, nil, d.Common(), d); err != nil {
				return false, err
			}
			no := st.clone()
			no.assume(Not(flag))
			no.reach = vc.Define("reach", no.reach)
			*st = *vc.mergeStates([]*State{yes, no})
		}
	case *ssa.Go:
		if vc.contract != nil && vc.contract.DetachedGo {
			// `detachedgo`: the goroutine is assumed to talk to this function by signalling only
			// (closing/cancelling/sending): the memory is havoced here, the function's own call log
			// (what its sequential code calls, in which order) is not the goroutine's to change
			vc.assume("goroutines started by " + vc.fullName + " are assumed not to write memory the function reads afterwards (detachedgo: signalling only; schedules are outside the model)")
			vc.havocAll(st)
			break
		}
		vc.note("%s: go statement: outside the subset", fr.pos(in.Pos()))
		st.taint = True
		vc.havocAll(st)
	case *ssa.Send:
		vc.note("%s: channel send treated as effect-free", fr.pos(in.Pos()))
	case *ssa.Select:
		// nondeterministic choice among the arms; receive arms bump the ghost receive counter
		vc.nondet = true
		n := len(x.States)
		idxT := types.Typ[types.Int]
		idxS, _ := vc.tt.SortOf(idxT)
		idx := vc.Fresh(x.Name()+"idx", idxS)
		lo := int64(0)
		if !x.Blocking {
			lo = -1
		}
		idxI := vc.toIndex(idx, idxT)
		st.assume(And(Le(IntLit(lo), idxI), Lt(idxI, IntLit(int64(n)))))
		recvOk := vc.Fresh(x.Name()+"ok", SBool)
		tup := []Term{idx, recvOk}
		for i, ss := range x.States {
			if ss.Dir != types.RecvOnly {
				continue
			}
			ch, err := fr.value(ss.Chan)
			if err != nil {
				return false, fr.unsupportedErr(in, err)
			}
			elem := U(ss.Chan.Type()).(*types.Chan).Elem()
			srt, err := vc.tt.SortOf(elem)
			if err != nil {
				return false, havocValue(x, "select receive of unsupported element type")
			}
			val := vc.Fresh(fmt.Sprintf("%s_r%d", x.Name(), i), srt)
			st.assume(vc.rangeAssumption(val, elem, st.alloc))
			tup = append(tup, val)
			vc.bumpRecv(st, ch, Eq(idxI, IntLit(int64(i))), elem)
			fr.recvAssume(st, ss.Chan, val, elem)
		}
		fr.tuples[x] = tup
		vc.assume("channel operations: a receive yields an unconstrained value, sends are effect-free; blocking, buffering and the communicating partner are not modelled")
	case *ssa.MakeClosure:
		fn := x.Fn.(*ssa.Function)
		t := vc.Fresh("closure", SFunc)
		fr.vals[x] = t
		binds := make([]Term, len(x.Bindings))
		for i, bnd := range x.Bindings {
			bt, err := fr.value(bnd)
			if err != nil {
				return false, fr.unsupportedErr(in, err)
			}
			binds[i] = bt
		}
		vc.ctx.closures[t.S] = &closureInfo{fn: fn, binds: binds}
		fr.closureSiteChecks(st, x, fn, binds)
	case *ssa.MakeChan:
		r := vc.allocObject(st, nil)
		def(x, r)
	case *ssa.Range:
		return false, fr.rangeInit(st, x, havocValue)
	case *ssa.Next:
		return false, fr.rangeNext(st, x, havocValue)
	case *ssa.SliceToArrayPointer:
		a, err := fr.value(x.X)
		if err != nil {
			return false, fr.unsupportedErr(in, err)
		}
		arr := U(U(x.Type()).(*types.Pointer).Elem()).(*types.Array)
		fr.safe(st, "slice2array", Ge(SLen(a), IntLit(arr.Len())), in, "slice to array pointer: too short")
		// the array object view starts one slot before the elements (phantom header)
		def(x, RefAdd(SBase(a), IntLit(-1)))
	case *ssa.Return:
		var vals []Term
		for _, r := range x.Results {
			t, err := fr.value(r)
			if err != nil {
				return false, fr.unsupportedErr(in, err)
			}
			vals = append(vals, t)
		}
		fr.rets = append(fr.rets, retSite{st: st, vals: vals, blk: b})
		return true, nil
	case *ssa.Jump:
		return true, fr.setEdge(b, b.Succs[0], st)
	case *ssa.If:
		c, err := fr.value(x.Cond)
		if err != nil {
			return false, fr.unsupportedErr(in, err)
		}
		t := st.clone()
		t.assume(c)
		t.reach = vc.Define("reach", t.reach)
		f := st.clone()
		f.assume(Not(c))
		f.reach = vc.Define("reach", f.reach)
		if err := fr.setEdge(b, b.Succs[0], t); err != nil {
			return false, err
		}
		return true, fr.setEdge(b, b.Succs[1], f)
	case *ssa.Panic:
		if !vc.nosafe {
			n := vc.ordinal("safe:" + fr.path + "panic")
			vc.addObl(&Obligation{Name: fr.oblName("safe", fmt.Sprintf("panic@%d", n)), Kind: "safe", Reach: st.reach, Cond: False,
				Taint: st.taint, Pos: fr.pos(in.Pos()), Descr: "explicit panic reachable"})
		}
		return true, nil
	default:
		if v, ok := in.(ssa.Value); ok {
			return false, havocValue(v, fmt.Sprintf("unsupported instruction %T", in))
		}
		vc.note("%s: unsupported instruction %T", fr.pos(in.Pos()), in)
		st.taint = True
		vc.havocAll(st)
	}
	return false, nil
}

// convertStruct re-wraps a struct value of one named type as another named type with the same
// underlying struct (Go's T2(v) for identical underlying types).
func (vc *VC) convertStruct(a Term, from, to types.Type) (Term, bool) {
	fu, ok1 := U(from).(*types.Struct)
	tu, ok2 := U(to).(*types.Struct)
	if !ok1 || !ok2 || fu.NumFields() != tu.NumFields() {
		return Term{}, false
	}
	if _, o := vc.tt.isOpaque(from); o {
		return Term{}, false
	}
	if _, o := vc.tt.isOpaque(to); o {
		return Term{}, false
	}
	fs, err1 := vc.tt.SortOf(from)
	ts, err2 := vc.tt.SortOf(to)
	if err1 != nil || err2 != nil {
		return Term{}, false
	}
	var args []Term
	for i := 0; i < fu.NumFields(); i++ {
		ffs, err1 := vc.tt.SortOf(fu.Field(i).Type())
		tfs, err2 := vc.tt.SortOf(tu.Field(i).Type())
		if err1 != nil || err2 != nil {
			return Term{}, false
		}
		fv := App(ffs, structFieldAccessor(fs, i), a)
		if ffs != tfs {
			c, ok := vc.convertStruct(fv, fu.Field(i).Type(), tu.Field(i).Type())
			if !ok {
				return Term{}, false
			}
			fv = c
		}
		args = append(args, fv)
	}
	if len(args) == 0 {
		return Term{"mk!" + string(ts), ts}, true
	}
	return App(ts, "mk!"+string(ts), args...), true
}

func (fr *Frame) deferKey(d *ssa.Defer) string {
	return fmt.Sprintf("defer!%s!%d!%d", fr.path, d.Block().Index, d.Pos())
}

// allDefers lists the defer statements of the function in block/instruction order.
func (fr *Frame) allDefers() []*ssa.Defer {
	var out []*ssa.Defer
	for _, b := range fr.fn.Blocks {
		for _, in := range b.Instrs {
			if d, ok := in.(*ssa.Defer); ok {
				out = append(out, d)
			}
		}
	}
	return out
}

// derivedAddr: addresses computed from a checked base (or fresh) need no second nil check.
func derivedAddr(v ssa.Value) bool {
	switch v.(type) {
	case *ssa.IndexAddr, *ssa.FieldAddr, *ssa.Alloc, *ssa.Global:
		return true
	}
	return false
}

var bigOne = newBig(1)

func newBig(n int64) *bigInt { return new(bigInt).SetInt64(n) }

func (fr *Frame) sliceOp(st *State, x *ssa.Slice) error {
	vc := fr.vc
	a, err := fr.value(x.X)
	if err != nil {
		return fr.unsupportedErr(x, err)
	}
	get := func(v ssa.Value) (Term, bool, error) {
		if v == nil {
			return Term{}, false, nil
		}
		t, err := fr.value(v)
		if err != nil {
			return Term{}, false, err
		}
		return vc.toIndex(t, v.Type()), true, nil
	}
	lo, hasLo, err := get(x.Low)
	if err != nil {
		return fr.unsupportedErr(x, err)
	}
	hi, hasHi, err := get(x.High)
	if err != nil {
		return fr.unsupportedErr(x, err)
	}
	mx, hasMax, err := get(x.Max)
	if err != nil {
		return fr.unsupportedErr(x, err)
	}
	if !hasLo {
		lo = IntLit(0)
	}
	switch u := U(x.X.Type()).(type) {
	case *types.Slice:
		if !hasHi {
			hi = SLen(a)
		}
		cp := SCap(a)
		if !hasMax {
			mx = cp
		}
		fr.safe(st, "slice", And(Le(IntLit(0), lo), Le(lo, hi), Le(hi, mx), Le(mx, cp)), x, "slice bounds out of range")
		k := vc.tt.Slots(u.Elem())
		fr.vals[x] = vc.Define(x.Name(), MkSlice(ElemAddr(SBase(a), lo, k), Sub(hi, lo), Sub(mx, lo)))
	case *types.Pointer:
		arr := U(u.Elem()).(*types.Array)
		n := IntLit(arr.Len())
		if !hasHi {
			hi = n
		}
		if !hasMax {
			mx = n
		}
		fr.safe(st, "nil", Neq(Rid(a), IntLit(0)), x, "nil array pointer")
		fr.safe(st, "slice", And(Le(IntLit(0), lo), Le(lo, hi), Le(hi, mx), Le(mx, n)), x, "slice bounds out of range")
		k := vc.tt.Slots(arr.Elem())
		fr.vals[x] = vc.Define(x.Name(), MkSlice(ElemAddr(RefAdd(a, IntLit(1)), lo, k), Sub(hi, lo), Sub(mx, lo)))
	case *types.Basic:
		if !hasHi {
			hi = App(SInt, "strlen", a)
		}
		fr.safe(st, "slice", And(Le(IntLit(0), lo), Le(lo, hi), Le(hi, App(SInt, "strlen", a))), x, "string slice bounds out of range")
		r := vc.Fresh(x.Name(), SStr)
		st.assume(Eq(App(SInt, "strlen", r), Sub(hi, lo)))
		fr.vals[x] = r
	default:
		return fr.unsupportedErr(x, fmt.Errorf("slice of %s", x.X.Type()))
	}
	return nil
}

func (fr *Frame) lookup(st *State, x *ssa.Lookup, havoc func(ssa.Value, string) error) error {
	vc := fr.vc
	m, err := fr.value(x.X)
	if err != nil {
		return fr.unsupportedErr(x, err)
	}
	k, err := fr.value(x.Index)
	if err != nil {
		return fr.unsupportedErr(x, err)
	}
	mt, ok := U(x.X.Type()).(*types.Map)
	if !ok {
		return havoc(x, "string lookup")
	}
	ks, err1 := vc.tt.SortOf(mt.Key())
	vs, err2 := vc.tt.SortOf(mt.Elem())
	if err1 != nil || err2 != nil {
		return havoc(x, "map with unsupported key/value type")
	}
	dom := Select(Select(vc.mapHeap(st, "dom", ks, vs), Rid(m)), k)
	val := Select(Select(vc.mapHeap(st, "val", ks, vs), Rid(m)), k)
	z, err := vc.zeroValue(mt.Elem())
	if err != nil {
		return havoc(x, err.Error())
	}
	// nil map reads as empty
	present := And(Neq(Rid(m), IntLit(0)), dom)
	v := vc.Define(x.Name(), Ite(present, val, z))
	st.assume(vc.rangeAssumption(v, mt.Elem(), st.alloc))
	if x.CommaOk {
		fr.tuples[x] = []Term{v, vc.Define(x.Name()+"ok", present)}
	} else {
		fr.vals[x] = v
	}
	return nil
}

func (fr *Frame) mapUpdate(st *State, x *ssa.MapUpdate) error {
	vc := fr.vc
	m, err := fr.value(x.Map)
	if err != nil {
		return fr.unsupportedErr(x, err)
	}
	k, err := fr.value(x.Key)
	if err != nil {
		return fr.unsupportedErr(x, err)
	}
	v, err := fr.value(x.Value)
	if err != nil {
		return fr.unsupportedErr(x, err)
	}
	mt := U(x.Map.Type()).(*types.Map)
	ks, err1 := vc.tt.SortOf(mt.Key())
	vs, err2 := vc.tt.SortOf(mt.Elem())
	if err1 != nil || err2 != nil {
		vc.note("%s: map update with unsupported types", fr.pos(x.Pos()))
		st.taint = True
		vc.havocAll(st)
		return nil
	}
	fr.safe(st, "nilmap", Neq(Rid(m), IntLit(0)), x, "assignment to entry in nil map")
	domH := vc.mapHeap(st, "dom", ks, vs)
	valH := vc.mapHeap(st, "val", ks, vs)
	lenH := vc.mapHeap(st, "len", "", "")
	had := Select(Select(domH, Rid(m)), k)
	vc.setMapHeap(st, "len", "", "", Store(lenH, Rid(m), Ite(had, Select(lenH, Rid(m)), Add(Select(lenH, Rid(m)), IntLit(1)))))
	vc.setMapHeap(st, "dom", ks, vs, Store(domH, Rid(m), Store(Select(domH, Rid(m)), k, True)))
	vc.setMapHeap(st, "val", ks, vs, Store(valH, Rid(m), Store(Select(valH, Rid(m)), k, v)))
	return nil
}

func (fr *Frame) typeAssert(st *State, x *ssa.TypeAssert, havoc func(ssa.Value, string) error) error {
	vc := fr.vc
	a, err := fr.value(x.X)
	if err != nil {
		return fr.unsupportedErr(x, err)
	}
	if _, isIface := U(x.AssertedType).(*types.Interface); isIface {
		// interface-to-interface: succeeds for a non-nil value iff the dynamic type implements it: unknown
		ok := vc.Fresh(x.Name()+"ok", SBool)
		st.assume(Implies(ok, Neq(ITag(a), IntLit(0))))
		if x.CommaOk {
			fr.tuples[x] = []Term{Ite(ok, a, NilIface), ok}
			return nil
		}
		vc.note("%s: interface-to-interface assertion assumed to succeed", fr.pos(x.Pos()))
		st.assume(ok)
		fr.vals[x] = a
		return nil
	}
	tag := IntLit(int64(vc.tt.TID(x.AssertedType)))
	ok := Eq(ITag(a), tag)
	srt, err := vc.tt.SortOf(x.AssertedType)
	if err != nil {
		return havoc(x, err.Error())
	}
	var val Term
	if srt == SRef {
		val = IRefOf(a)
	} else {
		v, err := vc.loadRaw(st, IRefOf(a), x.AssertedType)
		if err != nil {
			return havoc(x, err.Error())
		}
		val = v
	}
	if x.CommaOk {
		z, err := vc.zeroValue(x.AssertedType)
		if err != nil {
			return havoc(x, err.Error())
		}
		fr.tuples[x] = []Term{vc.Define(x.Name(), Ite(ok, val, z)), vc.Define(x.Name()+"ok", ok)}
		return nil
	}
	fr.safe(st, "typeassert", ok, x, "type assertion fails")
	fr.vals[x] = vc.Define(x.Name(), val)
	return nil
}

// ---------------------------------------------------------------------------
// map range: nondeterministic iteration with a ghost visited set

type rangeState struct {
	m       Term
	ks, vs  Sort
	visited string // ghost key
	mt      *types.Map
}

func (fr *Frame) rangeInit(st *State, x *ssa.Range, havoc func(ssa.Value, string) error) error {
	vc := fr.vc
	mt, ok := U(x.X.Type()).(*types.Map)
	if !ok {
		return havoc(x, "range over string")
	}
	m, err := fr.value(x.X)
	if err != nil {
		return fr.unsupportedErr(x, err)
	}
	ks, err1 := vc.tt.SortOf(mt.Key())
	vs, err2 := vc.tt.SortOf(mt.Elem())
	if err1 != nil || err2 != nil {
		return havoc(x, "range over map with unsupported types")
	}
	key := "visited!" + x.Name()
	st.ghost[key] = Term{fmt.Sprintf("((as const %s) false)", SArray(ks, SBool)), SArray(ks, SBool)}
	vc.ctx.ranges[x] = &rangeState{m: m, ks: ks, vs: vs, visited: key, mt: mt}
	fr.vals[x] = Term{"range!" + x.Name(), SRef}
	return nil
}

func (fr *Frame) rangeNext(st *State, x *ssa.Next, havoc func(ssa.Value, string) error) error {
	vc := fr.vc
	rng, ok := x.Iter.(*ssa.Range)
	if !ok {
		return havoc(x, "next on unknown iterator")
	}
	rs := vc.ctx.ranges[rng]
	if rs == nil {
		return havoc(x, "next on unmodelled range")
	}
	vis, ok := st.ghost[rs.visited]
	if !ok {
		return havoc(x, "range ghost state lost")
	}
	dom := Select(vc.mapHeap(st, "dom", rs.ks, rs.vs), Rid(rs.m))
	val := Select(vc.mapHeap(st, "val", rs.ks, rs.vs), Rid(rs.m))
	k := vc.Fresh(x.Name()+"k", rs.ks)
	okv := vc.Fresh(x.Name()+"ok", SBool)
	// ok => k is an unvisited key of the map; !ok => every key of the map has been visited
	qk := Term{"q!k", rs.ks}
	allVisited := Term{fmt.Sprintf("(forall ((q!k %s)) (=> %s %s))", rs.ks, Select(dom, qk).S, Select(vis, qk).S), SBool}
	st.assume(And(Implies(okv, And(Neq(Rid(rs.m), IntLit(0)), Select(dom, k), Not(Select(vis, k)))), Implies(Not(okv), Or(Eq(Rid(rs.m), IntLit(0)), allVisited))))
	// a map that yields a key is not empty
	st.assume(Implies(okv, Ge(Select(vc.mapHeap(st, "len", "", ""), Rid(rs.m)), IntLit(1))))
	st.assume(vc.rangeAssumption(k, rs.mt.Key(), st.alloc))
	v := vc.Define(x.Name()+"v", Select(val, k))
	st.assume(vc.rangeAssumption(v, rs.mt.Elem(), st.alloc))
	st.ghost[rs.visited] = vc.Define("vis", Ite(okv, Store(vis, k, True), vis))
	fr.tuples[x] = []Term{okv, k, v}
	return nil
}

// ---------------------------------------------------------------------------
// Loops

type mapEffect struct {
	root   Term
	ks, vs Sort
}

type effects struct {
	exact     map[Sort][]Term // single-slot writes through a loop-invariant pointer: exact addresses
	fresh     map[Sort]bool   // writes into objects allocated inside the loop
	chrecv    bool
	mapRoots  []mapEffect
	ghostVars map[string]bool
	all    bool
	sorts  map[Sort][]Term // sort -> rid terms of the objects written; nil slice entry list with unknown=true
	unk    map[Sort]bool
	maps   bool
	mapKV  map[[2]Sort]bool // maps of these key/value sorts may be written (any root)
	alloc  bool
	ghosts bool
}

func (fr *Frame) rootOf(v ssa.Value, li *loopInfo) (Term, bool) {
	for {
		switch x := v.(type) {
		case *ssa.FieldAddr:
			v = x.X
			continue
		case *ssa.IndexAddr:
			v = x.X
			continue
		case *ssa.Slice:
			v = x.X
			continue
		}
		break
	}
	if in, ok := v.(ssa.Instruction); ok {
		if li.blocks[in.Block()] {
			switch v.(type) {
			case *ssa.Alloc, *ssa.MakeSlice:
				// allocated inside the loop: a fresh object, reported with an invalid term and ok=true
				return Term{}, true
			}
			return Term{}, false
		}
	}
	t, err := fr.value(v)
	if err != nil {
		return Term{}, false
	}
	switch t.Sort {
	case SRef:
		return Rid(t), true
	case SSlice:
		return Rid(SBase(t)), true
	}
	return Term{}, false
}

// addMapEffect records a write to map m inside loop li: precise if m is loop-invariant.
func (fr *Frame) addMapEffect(m ssa.Value, li *loopInfo, ef *effects) {
	vc := fr.vc
	if in, ok := m.(ssa.Instruction); ok && li.blocks[in.Block()] {
		// a value loaded inside the loop; accept loads of the same loop-invariant address (field of a parameter)
		if ld, ok := m.(*ssa.UnOp); ok {
			if root, ok2 := fr.rootOf(ld.X, li); ok2 && root.Valid() {
				if t, ok3 := fr.loopInvariantLoad(ld, li); ok3 {
					mt := U(m.Type()).(*types.Map)
					ks, e1 := vc.tt.SortOf(mt.Key())
					vs, e2 := vc.tt.SortOf(mt.Elem())
					if e1 == nil && e2 == nil {
						ef.mapRoots = append(ef.mapRoots, mapEffect{Rid(t), ks, vs})
						return
					}
				}
			}
		}
		ef.maps = true
		return
	}
	t, err := fr.value(m)
	mt, isMap := U(m.Type()).(*types.Map)
	if err != nil || !isMap {
		ef.maps = true
		return
	}
	ks, e1 := vc.tt.SortOf(mt.Key())
	vs, e2 := vc.tt.SortOf(mt.Elem())
	if e1 != nil || e2 != nil {
		ef.maps = true
		return
	}
	ef.mapRoots = append(ef.mapRoots, mapEffect{Rid(t), ks, vs})
}

// loopInvariantLoad: a load inside the loop from an address computed outside it (or a
// field address of a loop-invariant pointer) whose sort-heap the loop does not write.
// Returns the value of the same load performed in the pre-loop state.
func (fr *Frame) loopInvariantLoad(ld *ssa.UnOp, li *loopInfo) (Term, bool) {
	vc := fr.vc
	addr := ld.X
	var base ssa.Value
	var off int64
	for {
		if fa, ok := addr.(*ssa.FieldAddr); ok {
			stt := U(U(fa.X.Type()).(*types.Pointer).Elem()).(*types.Struct)
			off += vc.tt.FieldOffset(stt, fa.Field)
			addr = fa.X
			continue
		}
		break
	}
	base = addr
	if in, ok := base.(ssa.Instruction); ok && li.blocks[in.Block()] {
		return Term{}, false
	}
	bt, err := fr.value(base)
	if err != nil {
		return Term{}, false
	}
	// the loop must not store into the heap of this sort (checked by the caller's effect set later); be conservative:
	srt, err := vc.tt.SortOf(ld.Type())
	if err != nil {
		return Term{}, false
	}
	for _, b := range fr.fn.Blocks {
		if !li.blocks[b] {
			continue
		}
		for _, in := range b.Instrs {
			if s, ok := in.(*ssa.Store); ok {
				leaf := map[Sort]bool{}
				vc.leafSorts(U(s.Addr.Type()).(*types.Pointer).Elem(), leaf)
				if leaf[srt] {
					return Term{}, false
				}
			}
			if c, ok := in.(ssa.CallInstruction); ok {
				if _, isB := c.Common().Value.(*ssa.Builtin); !isB {
					return Term{}, false
				}
			}
		}
	}
	v, err := vc.loadRaw(li.preState, RefAdd(bt, IntLit(off)), ld.Type())
	if err != nil {
		return Term{}, false
	}
	return v, true
}

func (fr *Frame) loopEffects(li *loopInfo) *effects {
	vc := fr.vc
	ef := &effects{sorts: map[Sort][]Term{}, unk: map[Sort]bool{}, ghostVars: map[string]bool{}, fresh: map[Sort]bool{}, exact: map[Sort][]Term{}}
	addStore := func(addr ssa.Value, t types.Type) {
		leaf := map[Sort]bool{}
		vc.leafSorts(t, leaf)
		root, ok := fr.rootOf(addr, li)
		for _, s := range sortedKeys(leaf) {
			if ok && !root.Valid() {
				ef.fresh[s] = true
				if _, has := ef.sorts[s]; !has {
					ef.sorts[s] = nil
				}
			} else if ok {
				ef.sorts[s] = append(ef.sorts[s], root)
			} else {
				ef.unk[s] = true
				if _, has := ef.sorts[s]; !has {
					ef.sorts[s] = nil
				}
			}
		}
	}
	for _, b := range fr.fn.Blocks {
		if !li.blocks[b] {
			continue
		}
		for _, in := range b.Instrs {
			switch x := in.(type) {
			case *ssa.Store:
				addStore(x.Addr, U(x.Addr.Type()).(*types.Pointer).Elem())
			case *ssa.MapUpdate:
				fr.addMapEffect(x.Map, li, ef)
			case *ssa.Alloc, *ssa.MakeSlice, *ssa.MakeMap, *ssa.MakeInterface, *ssa.MakeClosure, *ssa.MakeChan:
				ef.alloc = true
				if a, ok := x.(*ssa.Alloc); ok {
					// zero-initialisation writes into a fresh object
					leaf := map[Sort]bool{}
					vc.leafSorts(U(a.Type()).(*types.Pointer).Elem(), leaf)
					for _, s := range sortedKeys(leaf) {
						ef.fresh[s] = true
						if _, has := ef.sorts[s]; !has {
							ef.sorts[s] = nil
						}
					}
				}
				if ms, ok := x.(*ssa.MakeSlice); ok {
					leaf := map[Sort]bool{}
					vc.leafSorts(U(ms.Type()).(*types.Slice).Elem(), leaf)
					for _, s := range sortedKeys(leaf) {
						ef.fresh[s] = true
						if _, has := ef.sorts[s]; !has {
							ef.sorts[s] = nil
						}
					}
				}
				if mi, ok := x.(*ssa.MakeInterface); ok {
					if srt, err := vc.tt.SortOf(mi.X.Type()); err == nil && srt != SRef {
						leaf := map[Sort]bool{}
						vc.leafSorts(mi.X.Type(), leaf)
						for _, s := range sortedKeys(leaf) {
							ef.fresh[s] = true
							if _, has := ef.sorts[s]; !has {
								ef.sorts[s] = nil
							}
						}
					}
				}
				if _, ok := x.(*ssa.MakeMap); ok {
					ef.maps = true
				}
			case *ssa.Range, *ssa.Next:
				ef.ghosts = true
			case *ssa.Select:
				ef.chrecv = true
			case *ssa.UnOp:
				if x.Op == token.ARROW {
					ef.chrecv = true
				}
			case ssa.CallInstruction:
				fr.callEffects(x, li, ef)
			}
		}
	}
	return ef
}

func (fr *Frame) enterLoop(li *loopInfo, pre *State, phis []*ssa.Phi, phiEntry map[*ssa.Phi]Term) error {
	vc := fr.vc
	vc.nondet = true
	li.preState = pre.clone()
	if vc.ctx.firstIter {
		// Under-approximation (used when a contract no longer fits its function): no invariant,
		// no havoc - the loop is entered in the state that reaches it, its body is encoded once
		// and every path is cut at the back edge. What remains are real paths: those that leave
		// each loop before completing an iteration (exit at the first test, break, return).
		hs := pre.clone()
		li.phiHavoc = map[*ssa.Phi]Term{}
		for _, phi := range phis {
			fr.vals[phi] = phiEntry[phi]
			li.phiHavoc[phi] = phiEntry[phi]
		}
		li.hdrState = hs
		return nil
	}
	if li.spec == nil {
		vc.note("%s: loop %d of %s has no invariant (true assumed)", fr.pos(li.header.Instrs[0].Pos()), li.ordinal, fr.fn.Name())
	}
	// init obligations
	if li.spec != nil {
		for _, inv := range li.spec.Invs {
			env := fr.loopEnv(li, pre, phiEntry)
			t, err := env.EvalBool(inv.E)
			if err != nil {
				vc.note("contract error: loop %s invariant %s: %v", li.spec.Key, inv.Label, err)
				continue
			}
			vc.addObl(&Obligation{Name: fr.oblName("inv", fmt.Sprintf("%s.%s:init", li.spec.Key, inv.Label)), Kind: "inv-init",
				Reach: pre.reach, Cond: t, Taint: pre.taint, Pos: fr.pos(li.header.Instrs[0].Pos()), Descr: "loop invariant holds on entry: " + inv.Src})
		}
	}
	// havoc
	hs := pre.clone()
	ef := fr.loopEffects(li)
	// Private cells (locals whose address never leaves the function, read-only captured
	// variables) that the loop body itself does not store into cannot change in the loop -
	// whatever its callees do: they keep their value through a havoc of "everything".
	type keptCell struct {
		c capturedCell
		v Term
	}
	var keptCells []keptCell
	if ef.all {
		for _, c := range vc.captured {
			if c.root == nil || storesInto(c.root, li.blocks) {
				continue
			}
			if v, err := vc.loadAt(hs, c.addr, c.ty); err == nil {
				keptCells = append(keptCells, keptCell{c, v})
			}
		}
	}
	if allowed, ok := vc.loopFrameAllowed(); ef.all && ok {
		// the body may write anywhere, but the function's modifies clause bounds what may change
		// in pre-existing objects: cells outside it keep their value (re-proved at every back edge)
		var sl []string
		for _, s := range sortedKeys(vc.heapReg) {
			sl = append(sl, string(s))
		}
		sort.Strings(sl)
		li.frameHeads = map[Sort]Term{}
		li.frameAll = true
		for _, ss := range sl {
			s := Sort(ss)
			keep := fmt.Sprintf("(and (< (rid q!r) %s) (not (or %s false)))", vc.entryAlloc.S, joinTerms(allowed[s]))
			nh := vc.MixHeap(s, vc.heap(hs, s), Term{keep, SBool})
			hs.heaps[s] = nh
			li.frameHeads[s] = nh
		}
		hs.maps = map[string]Term{}
		hs.mbase = vc.freshName("ep")
		hs.lazyParents, hs.lazySels = nil, nil
		na := vc.Fresh("alloc", SInt)
		hs.assume(Ge(na, hs.alloc))
		hs.alloc = na
		for _, ss := range sl {
			hs.touch(Sort(ss))
		}
	} else if ef.all {
		vc.havocAllLoop(hs)
	} else {
		var sl []string
		for _, s := range sortedKeys(ef.sorts) {
			sl = append(sl, string(s))
		}
		sort.Strings(sl)
		allowed, allowedOK := vc.loopFrameAllowed()
		outside := func(s Sort) string {
			return fmt.Sprintf("(and (< (rid q!r) %s) (not (or %s false)))", vc.entryAlloc.S, joinTerms(allowed[s]))
		}
		for _, ss := range sl {
			s := Sort(ss)
			old := vc.heap(hs, s)
			var nh Term
			if allowedOK {
				if li.frameHeads == nil {
					li.frameHeads = map[Sort]Term{}
				}
			}
			if !ef.unk[s] {
				var conds []string
				seen := map[string]bool{}
				for _, r := range ef.sorts[s] {
					if !seen[r.S] {
						seen[r.S] = true
						conds = append(conds, fmt.Sprintf("(not (= (rid q!r) %s))", r.S))
					}
				}
				for _, a := range ef.exact[s] {
					if !seen["="+a.S] {
						seen["="+a.S] = true
						conds = append(conds, fmt.Sprintf("(not (= q!r %s))", a.S))
					}
				}
				if ef.fresh[s] {
					conds = append(conds, fmt.Sprintf("(< (rid q!r) %s)", pre.alloc.S))
				}
				keep := fmt.Sprintf("(and %s true)", strings.Join(conds, " "))
				if allowedOK {
					keep = fmt.Sprintf("(or %s %s)", keep, outside(s))
				}
				nh = vc.MixHeap(s, old, Term{keep, SBool})
			} else if allowedOK {
				nh = vc.MixHeap(s, old, Term{outside(s), SBool})
			} else {
				// unknown targets: nothing preserved for this sort
				nh = vc.Fresh("hl", heapSort(s))
			}
			if allowedOK {
				li.frameHeads[s] = nh
			}
			hs.heaps[s] = nh
			hs.touch(s)
			vc.heapReg[s] = true
		}
		if ef.maps {
			hs.maps = map[string]Term{}
			hs.mbase = vc.freshName("ep")
			hs.lazyParents, hs.lazySels = nil, nil
		} else {
			for _, kv := range sortedKV(ef.mapKV) {
				vc.havocMapsOfSorts(hs, kv[0], kv[1])
			}
			for _, me := range ef.mapRoots {
				domH := vc.mapHeap(hs, "dom", me.ks, me.vs)
				valH := vc.mapHeap(hs, "val", me.ks, me.vs)
				lenH := vc.mapHeap(hs, "len", "", "")
				vc.setMapHeap(hs, "dom", me.ks, me.vs, Store(domH, me.root, vc.Fresh("domh", SArray(me.ks, SBool))))
				vc.setMapHeap(hs, "val", me.ks, me.vs, Store(valH, me.root, vc.Fresh("valh", SArray(me.ks, me.vs))))
				nl := vc.Fresh("lenh", SInt)
				hs.assume(Ge(nl, IntLit(0)))
				vc.setMapHeap(hs, "len", "", "", Store(lenH, me.root, nl))
			}
		}
		if ef.alloc {
			na := vc.Fresh("alloc", SInt)
			hs.assume(Ge(na, hs.alloc))
			hs.alloc = na
		}
	}
	for _, k := range keptCells {
		vc.storeAt(hs, k.c.addr, k.c.ty, k.v)
	}
	if ef.chrecv || ef.all {
		for _, elem := range fr.recvElemTypes(li) {
			hs.ghost[vc.recvKey(elem)] = vc.Fresh("chrecv", SArray(SInt, SInt))
		}
	}
	for _, k := range sortedKeys(hs.ghost) {
		g := hs.ghost[k]
		if strings.HasPrefix(k, "chrecv!") {
			continue
		}
		if strings.HasPrefix(k, "gv!") {
			if !ef.ghostVars[k[3:]] && !ef.all {
				continue
			}
		} else if !ef.ghosts {
			continue
		}
		hs.ghost[k] = vc.Fresh("gh", g.Sort)
	}
	for _, g := range sortedKeys(ef.ghostVars) {
		if gv := vc.ctx.ghostVars[g]; gv != nil {
			vc.havocGhostVar(hs, gv)
		}
	}
	li.phiHavoc = map[*ssa.Phi]Term{}
	for _, phi := range phis {
		srt, err := vc.tt.SortOf(phi.Type())
		if err != nil {
			return fr.unsupportedErr(phi, err)
		}
		f := vc.Fresh(phi.Name()+"_"+phi.Comment, srt)
		hs.assume(vc.rangeAssumption(f, phi.Type(), hs.alloc))
		// compiler-generated range counters start at -1 / 0 and only count up to a length
		if f.Sort == SInt {
			switch phi.Comment {
			case "rangeindex":
				hs.assume(And(Ge(f, IntLit(-1)), Lt(f, IntLitBig(pow2(62)))))
			case "rangeint.iter":
				hs.assume(And(Ge(f, IntLit(0)), Lt(f, IntLitBig(new(big.Int).Sub(pow2(63), big.NewInt(1))))))
			}
		}
		fr.vals[phi] = f
		li.phiHavoc[phi] = f
	}
	if li.spec != nil {
		for _, inv := range li.spec.Invs {
			env := fr.loopEnv(li, hs, li.phiHavoc)
			t, err := env.EvalBool(inv.E)
			if err != nil {
				continue
			}
			hs.assume(t)
		}
		for _, u := range li.spec.Uses {
			env := fr.loopEnv(li, hs, li.phiHavoc)
			t, err := env.lemmaInstance(u)
			if err != nil {
				vc.note("contract error: loop %s uses: %v", li.spec.Key, err)
				continue
			}
			hs.assume(t)
			vc.assume("lemma instance assumed at a loop head (the lemma is proved as obligations of its own): " + u.String())
		}
		if li.spec.Decreases != nil {
			env := fr.loopEnv(li, hs, li.phiHavoc)
			m, err := env.Eval(li.spec.Decreases)
			if err != nil {
				vc.note("contract error: loop %s decreases: %v", li.spec.Key, err)
			} else {
				li.measure = vc.Define("measure", vc.toIndex(m.T, m.Ty))
			}
		}
	}
	hs.reach = vc.Define("reach", hs.reach)
	li.hdrState = hs
	return nil
}


func (fr *Frame) loopBackEdge(li *loopInfo, from *ssa.BasicBlock, st *State) error {
	vc := fr.vc
	if li == nil {
		return fmt.Errorf("back edge to a block that is not a loop header")
	}
	if vc.ctx.firstIter {
		if vc.ctx.unroll > 1 {
			// unrolling: the next copy of the loop body starts from here (see unrollLoop)
			li.unrollBack = append(li.unrollBack, st)
			li.unrollBackPreds = append(li.unrollBackPreds, from)
		}
		return nil // the path ends here (under-approximation, see enterLoop)
	}
	phiBack := map[*ssa.Phi]Term{}
	for _, in := range li.header.Instrs {
		phi, ok := in.(*ssa.Phi)
		if !ok {
			break
		}
		for k, p := range li.header.Preds {
			if p == from {
				t, err := fr.value(phi.Edges[k])
				if err != nil {
					return fr.unsupportedErr(phi, err)
				}
				phiBack[phi] = t
			}
		}
	}
	if len(li.frameHeads) > 0 {
		allowed, _ := vc.loopFrameAllowed()
		var sl []string
		for _, s := range sortedKeys(li.frameHeads) {
			sl = append(sl, string(s))
		}
		if li.frameAll {
			for _, s := range sortedKeys(vc.heapReg) {
				if _, ok := li.frameHeads[s]; !ok {
					sl = append(sl, string(s))
				}
			}
		}
		sort.Strings(sl)
		var parts []Term
		for _, ss := range sl {
			s := Sort(ss)
			head, ok := li.frameHeads[s]
			if !ok {
				head = vc.heap(li.hdrState, s)
			}
			end := vc.heap(st, s)
			if head.S == end.S {
				continue
			}
			parts = append(parts, Term{fmt.Sprintf("(forall ((q!r Ref)) (=> (and (< (rid q!r) %s) (not (or %s false))) (= (select %s q!r) (select %s q!r))))",
				vc.entryAlloc.S, joinTerms(allowed[s]), end.S, head.S), SBool})
		}
		if len(parts) > 0 {
			key := fmt.Sprint(li.ordinal)
			if li.spec != nil {
				key = li.spec.Key
			}
			vc.addObl(&Obligation{Name: fr.oblName("loopframe", fmt.Sprintf("%s@%d", key, vc.ordinal("loopframe:"+fr.path+key))), Kind: "frame",
				Reach: st.reach, Cond: And(parts...), Taint: st.taint, Pos: fr.pos(li.header.Instrs[0].Pos()),
				Descr: "loop body changes no pre-existing location outside the modifies clause"})
		}
	}
	if li.spec == nil {
		return nil
	}
	sfx := ""
	nTails := 0
	for _, p := range li.header.Preds {
		if backEdge(p, li.header) {
			nTails++
		}
	}
	if nTails > 1 {
		sfx = fmt.Sprintf("@%d", vc.ordinal("tail:"+fr.path+li.spec.Key))
	}
	for _, inv := range li.spec.Invs {
		env := fr.loopEnv(li, st, phiBack)
		t, err := env.EvalBool(inv.E)
		if err != nil {
			vc.note("contract error: loop %s invariant %s (preserve): %v", li.spec.Key, inv.Label, err)
			continue
		}
		vc.addObl(&Obligation{Name: fr.oblName("inv", fmt.Sprintf("%s.%s:preserve%s", li.spec.Key, inv.Label, sfx)), Kind: "inv-preserve",
			Reach: st.reach, Cond: t, Taint: st.taint, Pos: fr.pos(li.header.Instrs[0].Pos()), Descr: "loop invariant preserved: " + inv.Src})
	}
	if li.spec.Decreases != nil && li.measure.Valid() {
		env := fr.loopEnv(li, st, phiBack)
		m, err := env.Eval(li.spec.Decreases)
		if err == nil {
			mt := vc.toIndex(m.T, m.Ty)
			vc.addObl(&Obligation{Name: fr.oblName("dec", li.spec.Key+sfx), Kind: "dec", Reach: st.reach,
				Cond: And(Ge(li.measure, IntLit(0)), Lt(mt, li.measure)), Taint: st.taint, Pos: fr.pos(li.header.Instrs[0].Pos()), Descr: "loop measure decreases and is bounded below"})
		}
	}
	return nil
}

// loopEnv builds the spec environment for invariants of loop li evaluated in
// state st with the given phi values.
func (fr *Frame) loopEnv(li *loopInfo, st *State, phiVals map[*ssa.Phi]Term) *SpecEnv {
	env := fr.baseEnv(st)
	phiLookup := func(name string) (SpecVal, bool) {
		// 1. header phi with that source name
		for phi, t := range phiVals {
			if phi.Comment == name {
				return SpecVal{T: t, Ty: phi.Type()}, true
			}
		}
		// 1b. a source variable that the debug information maps to a header phi
		// (range-over-int loops: the phi is called rangeint.iter, the variable i)
		for _, d := range fr.dbg[name] {
			if phi, ok := d.v.(*ssa.Phi); ok && !d.isAddr {
				if t, ok := phiVals[phi]; ok {
					return SpecVal{T: t, Ty: phi.Type()}, true
				}
			}
		}
		// 2. header phi of an enclosing loop
		for h, outer := range fr.loops {
			if outer == li || !outer.blocks[li.header] || !h.Dominates(li.header) {
				continue
			}
			for _, in := range h.Instrs {
				phi, ok := in.(*ssa.Phi)
				if !ok {
					break
				}
				if phi.Comment == name {
					if t, ok := fr.vals[phi]; ok {
						return SpecVal{T: t, Ty: phi.Type()}, true
					}
				}
			}
		}
		return SpecVal{}, false
	}
	env.loopPre = li.preState
	env.shadow = phiLookup
	env.shadowable = map[string]SpecVal{}
	for k, v := range env.vars {
		env.shadowable[k] = v
	}
	env.lookup = func(name string) (SpecVal, bool) {
		if v, ok := phiLookup(name); ok {
			return v, true
		}
		return fr.lookupLocal(name, li.header, st, li)
	}
	env.lookupAddr = fr.lookupLocalAddr
	env.rangeOf = func(ord int) (string, bool) {
		for _, l := range fr.loops {
			if (ord == 0 && l != li) || (ord != 0 && l.ordinal != ord) {
				continue
			}
			for _, in := range l.header.Instrs {
				if nx, ok := in.(*ssa.Next); ok {
					if rng, ok := nx.Iter.(*ssa.Range); ok {
						if rs := fr.vc.ctx.ranges[rng]; rs != nil {
							return rs.visited, true
						}
					}
				}
			}
		}
		return "", false
	}
	return env
}

// lookupLocal resolves a source-level variable name at program point "start of block at".
func (fr *Frame) lookupLocal(name string, at *ssa.BasicBlock, st *State, li *loopInfo) (SpecVal, bool) {
	vc := fr.vc
	// a variable that lives in memory (address taken / captured by a closure): its cell is the
	// truth, not the SSA value it was initialised with
	for _, b := range fr.fn.Blocks {
		for _, in := range b.Instrs {
			if al, ok := in.(*ssa.Alloc); ok && al.Comment == name {
				if t, ok := fr.vals[al]; ok {
					el := U(al.Type()).(*types.Pointer).Elem()
					if v, err := vc.loadRaw(st, t, el); err == nil {
						return SpecVal{T: v, Ty: el}, true
					}
				}
			}
		}
	}
	refs := fr.dbg[name]
	var best *dbgRef
	for i := range refs {
		r := &refs[i]
		var defBlock *ssa.BasicBlock
		if in, ok := r.v.(ssa.Instruction); ok {
			defBlock = in.Block()
		}
		if defBlock != nil {
			if !defBlock.Dominates(at) || defBlock == at {
				_, isPhi := r.v.(*ssa.Phi)
				_, already := fr.vals[r.v]
				if !(defBlock == at && (isPhi || (li == nil && already))) {
					continue
				}
			}
			if li != nil && li.blocks[defBlock] && defBlock != at {
				continue
			}
		}
		if _, defined := fr.vals[r.v]; !defined {
			if _, isConst := r.v.(*ssa.Const); !isConst {
				if _, isParam := r.v.(*ssa.Parameter); !isParam {
					continue
				}
			}
		}
		if best == nil {
			best = r
			continue
		}
		// prefer the definition closest to 'at' (dominated by the previous best)
		bb, _ := best.v.(ssa.Instruction)
		rb, _ := r.v.(ssa.Instruction)
		if bb == nil || (rb != nil && bb.Block().Dominates(rb.Block())) {
			best = r
		}
	}
	if best == nil {
		// a local variable that lives in memory (captured by a closure, address taken): by its name
		for _, loc := range fr.fn.Locals {
			if loc.Comment == name {
				if t, ok := fr.vals[loc]; ok {
					el := U(loc.Type()).(*types.Pointer).Elem()
					if v, err := vc.loadRaw(st, t, el); err == nil {
						return SpecVal{T: v, Ty: el}, true
					}
				}
			}
		}
		for _, b := range fr.fn.Blocks {
			for _, in := range b.Instrs {
				if al, ok := in.(*ssa.Alloc); ok && al.Comment == name {
					if t, ok := fr.vals[al]; ok {
						el := U(al.Type()).(*types.Pointer).Elem()
						if v, err := vc.loadRaw(st, t, el); err == nil {
							return SpecVal{T: v, Ty: el}, true
						}
					}
				}
			}
		}
		return SpecVal{}, false
	}
	t, err := fr.value(best.v)
	if err != nil {
		return SpecVal{}, false
	}
	if best.isAddr {
		el := U(best.v.Type()).(*types.Pointer).Elem()
		v, err := vc.loadRaw(st, t, el)
		if err != nil {
			return SpecVal{}, false
		}
		return SpecVal{T: v, Ty: el}, true
	}
	return SpecVal{T: t, Ty: best.v.Type()}, true
}

// typesPkgOf: the package a function belongs to (an instance of a generic function has no
// ssa package of its own: its origin's).
func typesPkgOf(fn *ssa.Function) *types.Package {
	if fn.Pkg != nil {
		return fn.Pkg.Pkg
	}
	if o := fn.Origin(); o != nil && o.Pkg != nil {
		return o.Pkg.Pkg
	}
	if obj := fn.Object(); obj != nil {
		return obj.Pkg()
	}
	return nil
}

// baseEnv: parameters, receiver, free variables; old() refers to the function entry.
func (fr *Frame) baseEnv(st *State) *SpecEnv {
	env := &SpecEnv{vc: fr.vc, vars: map[string]SpecVal{}, cur: st, old: fr.entry, pkg: typesPkgOf(fr.fn), tparams: map[string]types.Type{}}
	if tps := fr.fn.TypeParams(); tps != nil {
		for i := 0; i < tps.Len(); i++ {
			env.tparams[tps.At(i).Obj().Name()] = tps.At(i)
		}
	}
	for _, p := range fr.fn.Params {
		if t, ok := fr.vals[p]; ok {
			env.vars[p.Name()] = SpecVal{T: t, Ty: p.Type()}
		}
	}
	for _, fv := range fr.fn.FreeVars {
		if t, ok := fr.freeVars[fv]; ok {
			env.vars[fv.Name()] = SpecVal{T: t, Ty: fv.Type()}
		}
	}
	return env
}

func joinTerms(ts []Term) string {
	var sb strings.Builder
	for i, t := range ts {
		if i > 0 {
			sb.WriteByte(' ')
		}
		sb.WriteString(t.S)
	}
	return sb.String()
}

// loopFrameAllowed: the root contract's modifies clause as a per-sort predicate, usable as a
// loop frame (kept by the havoc, re-proved at every back edge). Not usable for `modifies *`,
// for clauses that do not resolve to address ranges, or for functions without a contract.
func (vc *VC) loopFrameAllowed() (map[Sort][]Term, bool) {
	if !vc.rootAllowedDone {
		vc.rootAllowedDone = true
		fc := vc.contract
		if fc != nil && vc.rootFr != nil && !fc.ModifiesAll && fc.Kind != "lemma" {
			usable := true
			for _, m := range fc.Modifies {
				if m.Kind == ECall {
					usable = false // pointee(x) and other non-address forms
				}
			}
			if usable {
				if per, ok := vc.ctx.modifiesAllowed(vc, vc.rootFr, fc); ok {
					vc.rootAllowed = per
					if per == nil {
						vc.rootAllowed = map[Sort][]Term{}
					}
				}
			}
		}
	}
	return vc.rootAllowed, vc.rootAllowed != nil
}

// ifaceEq is Go's == on two interface values: equal dynamic types and equal dynamic values.
// Values of pointer-like types are compared by identity; every other value sits in a box and is
// compared by content. When one side is a conversion of a value of known type the content
// comparison is exact; otherwise the outcome for two distinct boxes of one type is left open.
func (fr *Frame) ifaceEq(st *State, X, Y ssa.Value, a, c Term) Term {
	vc := fr.vc
	isNilConst := func(v ssa.Value) bool {
		k, ok := v.(*ssa.Const)
		return ok && k.Value == nil
	}
	if isNilConst(X) || isNilConst(Y) {
		return Eq(a, c)
	}
	sides := []struct {
		v          ssa.Value
		self, other Term
	}{{X, a, c}, {Y, c, a}}
	for _, sd := range sides {
		mi, ok := sd.v.(*ssa.MakeInterface)
		if !ok {
			continue
		}
		T := mi.X.Type()
		tid := vc.tt.TID(T)
		if vc.tt.byRef[tid] {
			return Eq(a, c)
		}
		if _, isIface := U(T).(*types.Interface); isIface {
			continue
		}
		v, err := fr.value(mi.X)
		if err != nil {
			continue
		}
		cont, err := vc.loadAt(st, IRefOf(sd.other), T)
		if err != nil {
			continue
		}
		return And(Eq(ITag(sd.other), IntLit(int64(tid))), vc.valueEq(cont, v, T))
	}
	tagsEq := Eq(ITag(a), ITag(c))
	boxed := App(SBool, "boxedtag", ITag(a))
	return Or(Eq(a, c), And(tagsEq, boxed, App(SBool, "ifacevaleq", a, c)))
}

// lookupLocalAddr: the cell of a source-level local that lives in memory (address taken or
// captured), for &x in invariants and call-site clauses.
func (fr *Frame) lookupLocalAddr(name string) (Term, types.Type, bool) {
	for _, b := range fr.fn.Blocks {
		for _, in := range b.Instrs {
			if al, ok := in.(*ssa.Alloc); ok && al.Comment == name {
				if t, ok := fr.vals[al]; ok {
					return t, U(al.Type()).(*types.Pointer).Elem(), true
				}
			}
		}
	}
	return Term{}, nil, false
}

// addrPrivate: the address of a variable is used only to load from it, to store into it (if
// writable), and to address its fields or elements (recursively); it is never passed on, stored
// or returned. It may be captured by closures that only read it: such a closure - wherever it is
// called from - cannot change the variable, and nobody else can reach it.
func addrPrivate(v ssa.Value, writable bool) bool {
	refs := v.Referrers()
	if refs == nil {
		return false
	}
	for _, r := range *refs {
		switch x := r.(type) {
		case *ssa.DebugRef:
		case *ssa.UnOp:
			if x.Op != token.MUL {
				return false
			}
		case *ssa.Store:
			if x.Val == v || !writable {
				return false
			}
		case *ssa.FieldAddr:
			if !addrPrivate(x, writable) {
				return false
			}
		case *ssa.IndexAddr:
			if x.X != v || !addrPrivate(x, writable) {
				return false
			}
		case *ssa.MakeClosure:
			fn, ok := x.Fn.(*ssa.Function)
			if !ok {
				return false
			}
			for i, b := range x.Bindings {
				if b == v {
					if i >= len(fn.FreeVars) || !addrPrivate(fn.FreeVars[i], false) {
						return false
					}
				}
			}
		default:
			return false
		}
	}
	return true
}

// storesInto: some block of the set stores into the variable (or a field / element of it).
func storesInto(v ssa.Value, blocks map[*ssa.BasicBlock]bool) bool {
	refs := v.Referrers()
	if refs == nil {
		return true
	}
	for _, r := range *refs {
		switch x := r.(type) {
		case *ssa.Store:
			if x.Addr == v && blocks[x.Block()] {
				return true
			}
		case *ssa.FieldAddr:
			if storesInto(x, blocks) {
				return true
			}
		case *ssa.IndexAddr:
			if storesInto(x, blocks) {
				return true
			}
		}
	}
	return false
}
