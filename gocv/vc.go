package main

import (
	"fmt"
	"go/token"
	"go/types"
	"sort"
	"strings"

	"golang.org/x/tools/go/ssa"
)

// Obligation is one proof goal: under Reach, Cond must hold.
type Obligation struct {
	Name    string
	Kind    string // ensures, pre, inv-init, inv-preserve, dec, safe, cover, lemma, frame
	Reach   Term
	Cond    Term
	Taint   Term // Bool term: true on models whose path went through unmodelled code
	Pos     token.Position
	Descr   string
	IsCover bool // sat is the pass
	Watch   []WatchTerm
	Extra   []Term // additional assumptions (replay: small-scope bounds)
	Spec    *Expr  // ensures: the clause itself (replay evaluates it on the real outputs)
	Bound   string // non-empty: checked only under this bound on the inputs (bounded stand-in, not a proof)
	FullReach Term // bounded obligations: the hypotheses without the bound (thorough tier attempts the full clause)
	relaxAxioms bool // cover checks: retry without the quantified background axioms
}

type WatchTerm struct {
	Label string
	T     Term
}

// VC accumulates the declarations and obligations generated for one function
// under contract (or one lemma).
type VC struct {
	ctx      *Ctx
	tt       *TypeTable
	mode     ArithMode
	root     *ssa.Function
	contract *FuncContract
	fullName string
	decls    strings.Builder // z3 rendering (lambda arrays)
	declsC   strings.Builder // cvc5 rendering (quantified definitions)
	nfresh   int
	obls     []*Obligation
	notes    []string // unsupported constructs etc
	ord      map[string]int
	heapReg  map[Sort]bool
	heapInit map[string]bool // declared initial heap constants
	axioms   []string        // global axioms (about uninterpreted functions only)
	uf       map[string]bool
	inputs   []WatchTerm
	assumed  map[string]bool // assumptions recorded for evidence
	nosafe   bool
	nosafeKinds map[string]bool
	defBody    map[string]string    // Define'd name -> body (for syntactic address normalisation)
	heapLayer  map[string]heapLayer // heap term -> what it changes relative to its base heap
	preRids    map[string]bool      // rid terms known to be below the entry allocation counter
	freshRids  map[string]bool      // rid terms of objects allocated by the function (>= entry counter)
	effectFreeFuncs map[string]bool // function values declared effectfree() by a contract
	captured   []capturedCell // cells of the variables a closure under contract captures
	declsCache string // type declarations, frozen before obligations are solved in parallel
	entryAlloc Term
	nondet   bool // the VC abstracts (loop havoc, contract application, effect-free results): models need not be real executions
	// for replay
	entryState  *State
	exitState   *State
	rootFr      *Frame
	mapKeys     map[string]bool // every map heap (kind|K|V) mentioned so far
	rootAllowed map[Sort][]Term // modifies clause of the root contract, per sort (nil: not usable)
	rootAllowedDone bool
	paramTerms  []Term
	resultTerms []Term
	strLits  map[string]Term
	sentinels []string
	sentinelsP []string
}

func NewVC(ctx *Ctx, fn *ssa.Function, c *FuncContract, fullName string) *VC {
	mode := ModeInt
	if c != nil {
		mode = c.Mode
	}
	return &VC{ctx: ctx, tt: NewTypeTable(mode, ctx.opaque), mode: mode, root: fn, contract: c, fullName: fullName,
		ord: map[string]int{}, heapReg: map[Sort]bool{}, heapInit: map[string]bool{}, uf: map[string]bool{},
		assumed: map[string]bool{}, strLits: map[string]Term{}}
}

func (vc *VC) emitf(format string, a ...any) {
	s := fmt.Sprintf(format, a...)
	vc.decls.WriteString(s)
	vc.declsC.WriteString(s)
}

// LambdaHeap defines a heap H' with H'[q!r] = body, where body mentions the
// bound variable q!r. z3 gets a lambda array (quantifier-free, so models are
// produced); cvc5 gets the equivalent quantified definition of a fresh constant.
func (vc *VC) LambdaHeap(base string, valSort Sort, body Term) Term {
	n := vc.freshName(base)
	hs := heapSort(valSort)
	fmt.Fprintf(&vc.decls, "(define-fun %s () %s (lambda ((q!r Ref)) %s))\n", n, hs, body.S)
	fmt.Fprintf(&vc.declsC, "(declare-const %s %s)\n(assert (forall ((q!r Ref)) (! (= (select %s q!r) %s) :pattern ((select %s q!r)))))\n", n, hs, n, body.S, n)
	return Term{n, hs}
}

// MixHeap: H'[r] = old[r] where keep(r) holds, unconstrained elsewhere.
func (vc *VC) MixHeap(valSort Sort, old Term, keep Term) Term {
	fresh := vc.Fresh("hf", heapSort(valSort))
	q := Term{"q!r", SRef}
	return vc.LambdaHeap("hx", valSort, Ite(keep, Select(old, q), Select(fresh, q)))
}

func (vc *VC) fnCallsInit(name string) Term {
	n := "G0!fncalls!" + sanitize(name)
	if !vc.heapInit[n] {
		vc.heapInit[n] = true
		vc.emitf("(declare-const %s Int)\n", n)
	}
	return Term{n, SInt}
}

func (vc *VC) rootPkg() string {
	if vc.contract != nil {
		return vc.contract.PkgPath
	}
	return ""
}

// contractFor: in-repo contracts by function key (the callee's own, proved contract - with its
// preconditions - always wins); assumed (extern) contracts only from the contract file of the
// package being verified.
func (vc *VC) contractFor(key string) *FuncContract {
	if c := vc.ctx.contracts[key]; c != nil {
		// `ownpackage`: the contract is what the function is verified against, but callers in
		// other packages keep to their own (assumed) declaration of it when they have one
		if c.OwnPackage && c.PkgPath != vc.rootPkg() {
			if lc := vc.ctx.contracts[vc.rootPkg()+"=>"+key]; lc != nil {
				return lc
			}
		}
		return c
	}
	return vc.ctx.contracts[vc.rootPkg()+"=>"+key]
}

func (vc *VC) ifaceContractFor(key string) *FuncContract {
	if c := vc.ctx.ifaceContracts[key]; c != nil {
		return c
	}
	return vc.ctx.ifaceContracts[vc.rootPkg()+"=>"+key]
}

func (vc *VC) note(format string, a ...any) {
	s := fmt.Sprintf(format, a...)
	for _, n := range vc.notes {
		if n == s {
			return
		}
	}
	vc.notes = append(vc.notes, s)
}

func (vc *VC) assume(s string) { vc.assumed[s] = true }

func (vc *VC) freshName(base string) string {
	vc.nfresh++
	return fmt.Sprintf("%s!%d", sanitize(base), vc.nfresh)
}

// Fresh declares an unconstrained constant.
func (vc *VC) Fresh(base string, s Sort) Term {
	n := vc.freshName(base)
	vc.emitf("(declare-const %s %s)\n", n, s)
	return Term{n, s}
}

// Define declares a constant equal to t (sharing).
func (vc *VC) Define(base string, t Term) Term {
	if len(t.S) < 24 && !strings.ContainsAny(t.S, " ") {
		return t
	}
	n := vc.freshName(base)
	vc.emitf("(define-fun %s () %s %s)\n", n, t.Sort, t.S)
	if vc.defBody == nil {
		vc.defBody = map[string]string{}
	}
	vc.defBody[n] = t.S
	return Term{n, t.Sort}
}

func (vc *VC) DeclareFun(name string, args []Sort, res Sort) {
	if vc.uf[name] {
		return
	}
	vc.uf[name] = true
	var as []string
	for _, a := range args {
		as = append(as, string(a))
	}
	vc.emitf("(declare-fun %s (%s) %s)\n", name, strings.Join(as, " "), res)
}

func (vc *VC) ordinal(key string) int {
	vc.ord[key]++
	return vc.ord[key]
}

func (vc *VC) addObl(o *Obligation) {
	o.Name = vc.fullName + "#" + o.Name
	vc.obls = append(vc.obls, o)
}

// State is the symbolic machine state on one control-flow edge.
type State struct {
	reach Term
	taint Term
	base  string // name of the heap epoch; heaps not in the map are H!<base>!<sort>
	mbase string // same for map heaps
	heaps map[Sort]Term
	// hbound[s]: every reference stored in the heap of sort s belongs to an object
	// allocated before this bound (the allocation counter at the last write to that heap)
	hbound     map[Sort]Term
	epochBound Term
	alloc Term
	maps  map[string]Term // map heaps: "dom|K|V" / "val|K|V"
	ghost map[string]Term
	// set by mergeStates on its result: the selector constants of the merge (sel[i] <=> the
	// i-th incoming state was the one reached), for merging values alongside the state
	mergeSels []Term
	// a state merged from states of different map epochs: map heaps not mentioned before the
	// merge are merged on demand from the parents (see mapHeap)
	lazyParents []*State
	lazySels    []Term
}

func (s *State) clone() *State {
	n := &State{reach: s.reach, taint: s.taint, base: s.base, mbase: s.mbase, alloc: s.alloc, lazyParents: s.lazyParents, lazySels: s.lazySels,
		hbound: make(map[Sort]Term, len(s.hbound)), epochBound: s.epochBound,
		heaps: make(map[Sort]Term, len(s.heaps)), maps: make(map[string]Term, len(s.maps)), ghost: make(map[string]Term, len(s.ghost))}
	for k, v := range s.heaps {
		n.heaps[k] = v
	}
	for k, v := range s.hbound {
		n.hbound[k] = v
	}
	for k, v := range s.maps {
		n.maps[k] = v
	}
	for k, v := range s.ghost {
		n.ghost[k] = v
	}
	return n
}

func (s *State) assume(t Term) { s.reach = And(s.reach, t) }

func heapSort(v Sort) Sort { return SArray(SRef, v) }

func (vc *VC) baseHeap(base string, v Sort) Term {
	name := "H!" + base + "!" + sanitize(string(v))
	if !vc.heapInit[name] {
		vc.heapInit[name] = true
		vc.emitf("(declare-const %s %s)\n", name, heapSort(v))
		// well-formed input heap: references stored in memory that exists at entry point to
		// objects that exist at entry (needed for heap reads made by specifications, which carry
		// no per-load typing assumption)
		if base == "0" && vc.entryAlloc.Valid() {
			var ridOf string
			switch v {
			case SRef:
				ridOf = fmt.Sprintf("(rid (select %s q!r))", name)
			case SSlice:
				ridOf = fmt.Sprintf("(rid (sbase (select %s q!r)))", name)
			case SIface:
				ridOf = fmt.Sprintf("(rid (iref (select %s q!r)))", name)
			}
			if ridOf != "" {
				vc.axioms = append(vc.axioms, fmt.Sprintf("(forall ((q!r Ref)) (! (< %s %s) :pattern ((select %s q!r))))", ridOf, vc.entryAlloc.S, name))
			}
			if v == SSlice {
				// slices stored in memory at entry are backed by array allocations of their own
				vc.axioms = append(vc.axioms, fmt.Sprintf("(forall ((q!r Ref)) (! (=> (not (= (rid (sbase (select %s q!r))) 0)) (< (otype (rid (sbase (select %s q!r)))) 0)) :pattern ((select %s q!r))))", name, name, name))
				vc.assume("slices held in memory when the function is entered are backed by array allocations of their own (not by part of a struct object)")
				vc.axioms = append(vc.axioms, fmt.Sprintf("(forall ((q!r Ref)) (! (and (<= 0 (slen (select %s q!r))) (<= (slen (select %s q!r)) (scap (select %s q!r))) (< (scap (select %s q!r)) 4611686018427387904) (=> (= (rid (sbase (select %s q!r))) 0) (= (scap (select %s q!r)) 0))) :pattern ((select %s q!r))))", name, name, name, name, name, name, name))
			}
		}
	}
	return Term{name, heapSort(v)}
}

func (vc *VC) heap(st *State, v Sort) Term {
	vc.heapReg[v] = true
	if h, ok := st.heaps[v]; ok {
		return h
	}
	return vc.baseHeap(st.base, v)
}

func (vc *VC) setHeap(st *State, v Sort, h Term) {
	vc.heapReg[v] = true
	st.heaps[v] = vc.Define("h", h)
	st.touch(v)
}

// touch records that heap sort v was written in the current allocation epoch.
func (st *State) touch(v Sort) {
	if st.hbound == nil {
		st.hbound = map[Sort]Term{}
	}
	st.hbound[v] = st.alloc
}

// heapBound: references read from heap sort v point to objects with id below this.
func (vc *VC) heapBound(st *State, v Sort) Term {
	if b, ok := st.hbound[v]; ok {
		return b
	}
	if st.epochBound.Valid() {
		return st.epochBound
	}
	return st.alloc
}

// ghostVar returns the current value of a declared ghost variable in st.
func (vc *VC) ghostVar(st *State, gv *GhostVar) (Term, types.Type, error) {
	env := &SpecEnv{vc: vc, pkg: vc.ctx.typesPkg(gv.PkgPath)}
	var ty types.Type
	var srt Sort = SInt
	switch {
	case gv.Ty != nil:
		ty = gv.Ty
		s2, err := vc.tt.SortOf(gv.Ty)
		if err != nil {
			return Term{}, nil, err
		}
		srt = s2
	case gv.Type == "bool":
		srt = SBool
		ty = types.Typ[types.Bool]
	case gv.Type == "mathint":
	case strings.HasPrefix(gv.Type, "set[") && strings.HasSuffix(gv.Type, "]"):
		// a ghost set of values of a Go type: setin(s, x), setadd(s, x)
		t, err := env.resolveTypeName(gv.Type[4 : len(gv.Type)-1])
		if err != nil {
			return Term{}, nil, err
		}
		es, err := vc.tt.SortOf(t)
		if err != nil {
			return Term{}, nil, err
		}
		srt = SArray(es, SBool)
	default:
		t, err := env.resolveTypeName(gv.Type)
		if err != nil {
			return Term{}, nil, err
		}
		ty = t
		srt, err = vc.tt.SortOf(t)
		if err != nil {
			return Term{}, nil, err
		}
	}
	key := "gv!" + gv.PkgPath + "::" + gv.Name
	if t, ok := st.ghost[key]; ok {
		return t, ty, nil
	}
	name := "G0!" + sanitize(gv.PkgPath+"."+gv.Name)
	if !vc.heapInit[name] {
		vc.heapInit[name] = true
		vc.emitf("(declare-const %s %s)\n", name, srt)
	}
	return Term{name, srt}, ty, nil
}

func (vc *VC) havocGhostVar(st *State, gv *GhostVar) {
	t, ty, err := vc.ghostVar(st, gv)
	if err != nil {
		return
	}
	f := vc.Fresh("gv_"+gv.Name, t.Sort)
	st.ghost["gv!"+gv.PkgPath+"::"+gv.Name] = f
	if ty != nil {
		// a ghost variable of a Go type only takes values of that type
		if _, _, isInt := isIntType(ty); isInt {
			st.assume(vc.rangeAssumption(f, ty, st.alloc))
		}
	}
}

// mapHeap: maps are identified by rid of their Ref; dom: (Array Int (Array K Bool)), val: (Array Int (Array K V)), len: (Array Int Int)
func (vc *VC) mapHeap(st *State, kind string, k, v Sort) Term {
	var srt Sort
	switch kind {
	case "dom":
		srt = SArray(SInt, SArray(k, SBool))
	case "val":
		srt = SArray(SInt, SArray(k, v))
	case "len":
		srt = SArray(SInt, SInt)
	}
	key := kind + "|" + string(k) + "|" + string(v)
	if kind == "len" {
		key = "len"
	}
	if vc.mapKeys == nil {
		vc.mapKeys = map[string]bool{}
	}
	vc.mapKeys[key] = true
	if h, ok := st.maps[key]; ok {
		return h
	}
	if len(st.lazyParents) > 0 {
		t := vc.mapHeap(st.lazyParents[len(st.lazyParents)-1], kind, k, v)
		for i := len(st.lazyParents) - 2; i >= 0; i-- {
			t = Ite(st.lazySels[i], vc.mapHeap(st.lazyParents[i], kind, k, v), t)
		}
		h := vc.Define("m", t)
		st.maps[key] = h
		return h
	}
	name := "M!" + st.mbase + "!" + sanitize(key)
	if !vc.heapInit[name] {
		vc.heapInit[name] = true
		vc.emitf("(declare-const %s %s)\n", name, srt)
	}
	return Term{name, srt}
}

func (vc *VC) setMapHeap(st *State, kind string, k, v Sort, h Term) {
	key := kind + "|" + string(k) + "|" + string(v)
	if kind == "len" {
		key = "len"
	}
	st.maps[key] = vc.Define("m", h)
}

// havocAll starts a new heap epoch: every heap and map heap becomes unconstrained.
// havocAllLoop: the havoc at a loop head when the body may write anything. Nothing is kept: the
// body itself may write the cells that calls cannot reach.
func (vc *VC) havocAllLoop(st *State) {
	saved := vc.captured
	vc.captured = nil
	vc.havocAll(st)
	vc.captured = saved
}

func (vc *VC) havocAll(st *State) {
	type kept struct {
		c capturedCell
		v Term
	}
	var keep []kept
	for _, c := range vc.captured {
		if v, err := vc.loadAt(st, c.addr, c.ty); err == nil {
			keep = append(keep, kept{c, v})
		}
	}
	defer func() {
		for _, k := range keep {
			vc.storeAt(st, k.c.addr, k.c.ty, k.v)
		}
	}()
	st.base = vc.freshName("ep")
	st.mbase = st.base
	st.lazyParents, st.lazySels = nil, nil
	st.heaps = map[Sort]Term{}
	st.hbound = map[Sort]Term{}
	st.maps = map[string]Term{}
	na := vc.Fresh("alloc", SInt)
	st.assume(Ge(na, st.alloc))
	st.alloc = na
	st.epochBound = na
}

// mergeStates builds the state at a join from the incoming edge states.
func (vc *VC) mergeStates(ins []*State) *State {
	if len(ins) == 0 {
		return &State{reach: False, taint: False, base: "dead", mbase: "dead", hbound: map[Sort]Term{}, heaps: map[Sort]Term{}, maps: map[string]Term{}, ghost: map[string]Term{}, alloc: IntLit(1)}
	}
	if len(ins) == 1 {
		return ins[0].clone()
	}
	out := &State{heaps: map[Sort]Term{}, hbound: map[Sort]Term{}, maps: map[string]Term{}, ghost: map[string]Term{}}
	var reaches []Term
	for _, s := range ins {
		reaches = append(reaches, s.reach)
	}
	// Selector constants: declared booleans equal to the incoming reach conditions. Merged
	// terms branch on them, so that a solver run which fixes them (solveSplit's cubes) sees
	// if-then-else-free heaps after unit propagation.
	mid := vc.ordinal("merge")
	for i := 0; i < len(ins); i++ {
		name := fmt.Sprintf("sel!%d!%d", mid, i)
		vc.emitf("(declare-const %s Bool)\n(assert (= %s %s))\n", name, name, ins[i].reach.S)
		out.mergeSels = append(out.mergeSels, Term{name, SBool})
	}
	out.reach = vc.Define("reach", Or(out.mergeSels...))
	sels := out.mergeSels
	sel := func(get func(*State) Term) Term {
		t := get(ins[len(ins)-1])
		for i := len(ins) - 2; i >= 0; i-- {
			t = Ite(sels[i], get(ins[i]), t)
		}
		return t
	}
	out.taint = vc.Define("taint", sel(func(s *State) Term { return s.taint }))
	out.alloc = vc.Define("alloc", sel(func(s *State) Term { return s.alloc }))
	sameBase := true
	for _, s := range ins {
		if s.base != ins[0].base {
			sameBase = false
		}
	}
	if sameBase {
		out.base = ins[0].base
	} else {
		out.base = vc.freshName("ep")
	}
	out.mbase = ins[0].mbase
	for _, s := range ins {
		if s.mbase != out.mbase {
			out.mbase = vc.freshName("ep")
			break
		}
	}
	// heaps
	sorts := map[Sort]bool{}
	for _, s := range ins {
		for _, k := range sortedKeys(s.heaps) {
			sorts[k] = true
		}
	}
	if !sameBase {
		for _, k := range sortedKeys(vc.heapReg) {
			sorts[k] = true
		}
	}
	var sl []string
	for _, k := range sortedKeys(sorts) {
		sl = append(sl, string(k))
	}
	sort.Strings(sl)
	out.hbound = map[Sort]Term{}
	out.epochBound = out.alloc
	for _, k := range sl {
		srt := Sort(k)
		out.heaps[srt] = vc.Define("h", sel(func(s *State) Term { return vc.heap(s, srt) }))
		out.hbound[srt] = vc.Define("hb", sel(func(s *State) Term { return vc.heapBound(s, srt) }))
	}
	allSame := true
	for _, s := range ins {
		if s.epochBound.S != ins[0].epochBound.S || s.base != ins[0].base {
			allSame = false
		}
	}
	if allSame {
		out.epochBound = ins[0].epochBound
	}
	mkeys := map[string]bool{}
	for _, s := range ins {
		for _, k := range sortedKeys(s.maps) {
			mkeys[k] = true
		}
	}
	sameMBase := true
	for _, s := range ins {
		if s.mbase != ins[0].mbase {
			sameMBase = false
		}
	}
	if !sameMBase {
		// the incoming states live in different map epochs: every map heap seen so far is merged
		// explicitly, the others on demand (otherwise the merged epoch would leave them unconstrained)
		for k := range vc.mapKeys {
			mkeys[k] = true
		}
		out.lazyParents = ins
		out.lazySels = sels
	}
	var ml []string
	for k := range mkeys {
		ml = append(ml, k)
	}
	sort.Strings(ml)
	for _, key := range ml {
		parts := strings.SplitN(key, "|", 3)
		get := func(s *State) Term {
			if key == "len" {
				return vc.mapHeap(s, "len", "", "")
			}
			return vc.mapHeap(s, parts[0], Sort(parts[1]), Sort(parts[2]))
		}
		out.maps[key] = vc.Define("m", sel(get))
	}
	gkeys := map[string]bool{}
	for _, s := range ins {
		for _, k := range sortedKeys(s.ghost) {
			gkeys[k] = true
		}
	}
	for _, k := range sortedKeys(gkeys) {
		kk := k
		ok := true
		for _, s := range ins {
			if _, has := s.ghost[kk]; !has {
				ok = false
			}
		}
		if ok {
			out.ghost[kk] = vc.Define("g", sel(func(s *State) Term { return s.ghost[kk] }))
		} else if strings.HasPrefix(kk, "defer!") {
			out.ghost[kk] = vc.Define("g", sel(func(s *State) Term {
				if t, ok := s.ghost[kk]; ok {
					return t
				}
				return False
			}))
		} else if strings.HasPrefix(kk, "fnret!") {
			var srt Sort
			for _, s := range ins {
				if t, ok := s.ghost[kk]; ok {
					srt = t.Sort
				}
			}
			n := "G0!" + sanitize(kk)
			if !vc.heapInit[n] {
				vc.heapInit[n] = true
				vc.emitf("(declare-const %s %s)\n", n, srt)
			}
			init := Term{n, srt}
			out.ghost[kk] = vc.Define("g", sel(func(s *State) Term {
				if t, ok := s.ghost[kk]; ok {
					return t
				}
				return init
			}))
		} else if strings.HasPrefix(kk, "fncalls!") {
			out.ghost[kk] = vc.Define("g", sel(func(s *State) Term {
				if t, ok := s.ghost[kk]; ok {
					return t
				}
				return vc.fnCallsInit(kk[len("fncalls!"):])
			}))
		} else if strings.HasPrefix(kk, "chrecv!") {
			out.ghost[kk] = vc.Define("g", sel(func(s *State) Term {
				if t, ok := s.ghost[kk]; ok {
					return t
				}
				return Term{"G0!" + kk, SArray(SInt, SInt)}
			}))
		} else if strings.HasPrefix(kk, "gv!") {
			if gv := vc.ctx.ghostVars[kk[3:]]; gv != nil {
				out.ghost[kk] = vc.Define("g", sel(func(s *State) Term { t, _, _ := vc.ghostVar(s, gv); return t }))
			}
		}
	}
	return out
}

// rangeAssumption returns the typing invariant of a value of Go type t.
func (vc *VC) rangeAssumption(v Term, t types.Type, alloc Term) Term {
	if _, ok := vc.tt.isOpaque(t); ok {
		return True
	}
	if isAbstractTP(t) {
		return True
	}
	switch u := U(t).(type) {
	case *types.Basic:
		if w, signed, ok := intInfo(u); ok && vc.mode == ModeInt {
			if signed {
				return And(Le(IntLitBig(new(bigInt).Neg(pow2(w-1))), v), Lt(v, IntLitBig(pow2(w-1))))
			}
			return And(Le(IntLit(0), v), Lt(v, IntLitBig(pow2(w))))
		}
		if u.Kind() == types.String {
			return Ge(App(SInt, "strlen", v), IntLit(0))
		}
	case *types.Pointer:
		c := And(Lt(Rid(v), alloc))
		c = And(c, Implies(Eq(Rid(v), IntLit(0)), Eq(Roff(v), IntLit(0))))
		c = And(c, Implies(Neq(Rid(v), IntLit(0)), Eq(App(SInt, "dyn", v), IntLit(int64(vc.tt.TID(u.Elem()))))))
		if _, isStruct := U(u.Elem()).(*types.Struct); isStruct {
			if _, opq := vc.tt.isOpaque(u.Elem()); !opq {
				// struct pointers that flow into the function (parameters, loads, call results) are
				// assumed to point to whole allocations, not into the middle of another object
				c = And(c, Eq(Roff(v), IntLit(0)))
				c = And(c, Implies(Neq(Rid(v), IntLit(0)), Eq(App(SInt, "otype", Rid(v)), IntLit(int64(vc.tt.TID(u.Elem()))))))
				vc.assume("struct pointers entering a function (parameters, loaded or returned values) point to whole allocations: no partial overlap between objects of different struct types")
			}
		} else if !isAbstractTP(u.Elem()) {
			// typed memory: a pointer to a scalar or array is never a pointer into the backing
			// array of a slice of some other element type
			if _, opq := vc.tt.isOpaque(u.Elem()); !opq {
				ot := App(SInt, "otype", Rid(v))
				alts := []Term{Ge(ot, IntLit(0)), Eq(ot, IntLit(-int64(vc.tt.TID(u.Elem()))))}
				if a, ok := U(u.Elem()).(*types.Array); ok {
					alts = append(alts, Eq(ot, IntLit(-int64(vc.tt.TID(a.Elem())))))
				}
				c = And(c, Or(alts...))
			}
		}
		return c
	case *types.Map, *types.Chan:
		return And(Lt(Rid(v), alloc), Ge(Rid(v), IntLit(0)), Eq(Roff(v), IntLit(0)))
	case *types.Slice:
		c := And(Le(IntLit(0), SLen(v)), Le(SLen(v), SCap(v)), Lt(Rid(SBase(v)), alloc), Lt(SCap(v), IntLitBig(pow2(62))))
		c = And(c, Implies(Eq(Rid(SBase(v)), IntLit(0)), And(Eq(SCap(v), IntLit(0)), Eq(Roff(SBase(v)), IntLit(0)))))
		return c
	case *types.Interface:
		return And(Lt(Rid(IRefOf(v)), alloc), Ge(ITag(v), IntLit(0)), Implies(Eq(ITag(v), IntLit(0)), Eq(IRefOf(v), NullRef)),
			Implies(Eq(Rid(IRefOf(v)), IntLit(0)), Eq(Roff(IRefOf(v)), IntLit(0))))
	case *types.Struct:
		srt, err := vc.tt.SortOf(t)
		if err != nil {
			return True
		}
		var cs []Term
		for i := 0; i < u.NumFields(); i++ {
			fs, err := vc.tt.SortOf(u.Field(i).Type())
			if err != nil {
				continue
			}
			cs = append(cs, vc.rangeAssumption(App(fs, structFieldAccessor(srt, i), v), u.Field(i).Type(), alloc))
		}
		return And(cs...)
	case *types.Array:
		if u.Len() <= 8 {
			es, err := vc.tt.SortOf(u.Elem())
			if err != nil {
				return True
			}
			var cs []Term
			for i := int64(0); i < u.Len(); i++ {
				cs = append(cs, vc.rangeAssumption(App(es, "select", v, IntLit(i)), u.Elem(), alloc))
			}
			return And(cs...)
		}
		if _, _, ok := isIntType(u.Elem()); ok && vc.mode == ModeInt {
			// quantified range for long arrays
			es, _ := vc.tt.SortOf(u.Elem())
			q := Term{"q!i", SInt}
			body := vc.rangeAssumption(App(es, "select", v, q), u.Elem(), alloc)
			return Term{fmt.Sprintf("(forall ((q!i Int)) %s)", body.S), SBool}
		}
	}
	return True
}

// capturedCell: a variable of the enclosing function that the closure under contract captures.
type capturedCell struct {
	addr Term
	ty   types.Type
	root ssa.Value // the Alloc or FreeVar whose cell this is (to find the stores into it)
}

// sortedKeys: map keys in a fixed order, so that generated names and queries do not depend on
// Go's randomised map iteration (the same source must give the same SMT text on every run).
func sortedKeys[K ~string, V any](m map[K]V) []K {
	ks := make([]K, 0, len(m))
	for k := range m {
		ks = append(ks, k)
	}
	sort.Slice(ks, func(i, j int) bool { return ks[i] < ks[j] })
	return ks
}

func sortedKV(m map[[2]Sort]bool) [][2]Sort {
	ks := make([][2]Sort, 0, len(m))
	for k := range m {
		ks = append(ks, k)
	}
	sort.Slice(ks, func(i, j int) bool {
		if ks[i][0] != ks[j][0] {
			return ks[i][0] < ks[j][0]
		}
		return ks[i][1] < ks[j][1]
	})
	return ks
}

// ---------------------------------------------------------------------------
// Read-over-write resolution at generation time.
//
// Every object a function allocates has an id at or above the entry allocation counter; every
// object reachable from a parameter has an id below it. A read at an address whose object id is
// (syntactically) a parameter's therefore skips every heap layer that only writes objects
// allocated by the function: the read is emitted against the base heap. This is what an SMT
// solver would derive with array axioms and arithmetic on every such read; doing it here makes
// specification terms over parameters textually identical across states, so that wide
// bit-vector terms over them are shared instead of proved equal circuit by circuit.

type heapLayer struct {
	base Term
	rids []string // normalised rid terms of the only objects the layer writes
}

// sexprFirstArgs splits "(head a b ...)" into head and arguments.
func sexprSplit(s string) (string, []string) {
	if len(s) < 2 || s[0] != '(' || s[len(s)-1] != ')' {
		return s, nil
	}
	body := s[1 : len(s)-1]
	var parts []string
	depth, start := 0, -1
	for i := 0; i < len(body); i++ {
		c := body[i]
		switch {
		case c == '(':
			if depth == 0 && start < 0 {
				start = i
			}
			depth++
		case c == ')':
			depth--
			if depth == 0 {
				parts = append(parts, body[start:i+1])
				start = -1
			}
		case c == ' ' || c == '\n':
			if depth == 0 && start >= 0 {
				parts = append(parts, body[start:i])
				start = -1
			}
		default:
			if depth == 0 && start < 0 {
				start = i
			}
		}
	}
	if start >= 0 {
		parts = append(parts, body[start:])
	}
	if len(parts) == 0 {
		return s, nil
	}
	return parts[0], parts[1:]
}

// normRid: the object id of a reference term, with (rid (mkref x _)) folded to x and defined
// names unfolded; "" if it cannot be told syntactically.
func (vc *VC) normRid(ref string) string {
	for i := 0; i < 16; i++ {
		if b, ok := vc.defBody[ref]; ok {
			ref = b
			continue
		}
		h, args := sexprSplit(ref)
		if h == "mkref" && len(args) == 2 {
			return vc.normRidTerm(args[0])
		}
		if h == "eaddr" && len(args) == 3 {
			ref = args[0]
			continue
		}
		break
	}
	return vc.normRidTerm("(rid " + ref + ")")
}

func (vc *VC) normRidTerm(r string) string {
	for i := 0; i < 16; i++ {
		if b, ok := vc.defBody[r]; ok {
			r = b
			continue
		}
		h, args := sexprSplit(r)
		if h == "rid" && len(args) == 1 {
			inner := args[0]
			if b, ok := vc.defBody[inner]; ok {
				inner = b
			}
			h2, a2 := sexprSplit(inner)
			if h2 == "mkref" && len(a2) == 2 {
				r = a2[0]
				continue
			}
			if h2 == "eaddr" && len(a2) == 3 {
				r = "(rid " + a2[0] + ")"
				continue
			}
			if h2 == "sbase" && len(a2) == 1 {
				return "(rid (sbase " + a2[0] + "))"
			}
			return "(rid " + inner + ")"
		}
		break
	}
	return r
}

func (vc *VC) notePreRid(ref Term) {
	if vc.preRids == nil {
		vc.preRids = map[string]bool{}
	}
	vc.preRids[vc.normRid(ref.S)] = true
}

func (vc *VC) noteFreshRid(id Term) {
	if vc.freshRids == nil {
		vc.freshRids = map[string]bool{}
	}
	vc.freshRids[vc.normRidTerm(id.S)] = true
}

func (vc *VC) noteLayer(h Term, base Term, refs ...Term) {
	if vc.heapLayer == nil {
		vc.heapLayer = map[string]heapLayer{}
	}
	var rids []string
	for _, r := range refs {
		rids = append(rids, vc.normRid(r.S))
	}
	vc.heapLayer[h.S] = heapLayer{base, rids}
}

// peelHeap: the heap to read address addr from.
func (vc *VC) peelHeap(h Term, addr Term) Term {
	if len(vc.heapLayer) == 0 || len(vc.preRids) == 0 {
		return h
	}
	if !vc.preRids[vc.normRid(addr.S)] {
		return h
	}
	for {
		l, ok := vc.heapLayer[h.S]
		if !ok {
			return h
		}
		for _, r := range l.rids {
			if !vc.freshRids[r] {
				return h
			}
		}
		h = l.base
	}
}
