package main

import (
	"golang.org/x/tools/go/ssa"
	"bufio"
	"encoding/json"
	"flag"
	"fmt"
	"io/fs"
	"os"
	"path/filepath"
	"regexp"
	"sort"
	"strconv"
	"strings"
	"time"
)

type knownFinding struct {
	Kind       string // known | fixed
	Property   string
	Obligation string
	Text       string
}

func loadKnownFindings(path string) []knownFinding {
	f, err := os.Open(path)
	if err != nil {
		return nil
	}
	defer f.Close()
	var out []knownFinding
	sc := bufio.NewScanner(f)
	re := regexp.MustCompile(`^(known|fixed):\s+property=(\S+)\s+(?:obligation=(\S+)\s+)?(.*)$`)
	for sc.Scan() {
		line := strings.TrimSpace(sc.Text())
		if m := re.FindStringSubmatch(line); m != nil {
			out = append(out, knownFinding{m[1], m[2], m[3], m[4]})
		}
	}
	return out
}

func loadExpected(path string) map[string]bool {
	out := map[string]bool{}
	b, err := os.ReadFile(path)
	if err != nil {
		return out
	}
	for _, l := range strings.Split(string(b), "\n") {
		l = strings.TrimSpace(l)
		if l != "" && !strings.HasPrefix(l, "#") {
			out[l] = true
		}
	}
	return out
}

// contractDirs lists the package patterns of all contract files in the repo.
func contractDirs(repo string) []string {
	var pats []string
	filepath.WalkDir(repo, func(path string, d fs.DirEntry, err error) error {
		if err != nil {
			return nil
		}
		if d.IsDir() && (d.Name() == ".git" || d.Name() == "node_modules" || d.Name() == "target") {
			return filepath.SkipDir
		}
		if !d.IsDir() && d.Name() == contractFileName {
			rel, _ := filepath.Rel(repo, filepath.Dir(path))
			pats = append(pats, "./"+rel)
		}
		return nil
	})
	sort.Strings(pats)
	return pats
}

var safeShapeRe = regexp.MustCompile(`#safe:(.*)@\d+$`)
var ordinalRe = regexp.MustCompile(`@\d+`)

// normName drops call/edge ordinals, so that an obligation that merely moved
// (another back edge, another call to the same callee) is still recognised.
func normName(n string) string { return ordinalRe.ReplaceAllString(n, "") }

type replayFile struct {
	Property    string   `json:"property"`
	Obligation  string   `json:"obligation"`
	Kind        string   `json:"kind"`
	Description string   `json:"description"`
	Position    string   `json:"position"`
	Solver      string   `json:"solver"`
	SolverOut   string   `json:"solver_output"`
	Model       string   `json:"model"`
	Replay      string   `json:"replay_status"`
	ReplayInfo  string   `json:"replay_detail"`
	Package     string   `json:"package_dir,omitempty"`
	TestSrc     string   `json:"test_source,omitempty"`
	TestOutput  string   `json:"test_output,omitempty"`
	Notes       []string `json:"notes,omitempty"`
}

type evidence struct {
	PropertyID  string         `json:"property_id"`
	Tier        string         `json:"tier"`
	Seed        int            `json:"seed"`
	Level       string         `json:"level"`
	Coverage    map[string]any `json:"coverage"`
	Assumptions []string       `json:"assumptions"`
	WallS       float64        `json:"wall_s"`
	Violations  int            `json:"violations"`
}

func cmdCheck(args []string) {
	fl := flag.NewFlagSet("check", flag.ExitOnError)
	repo := fl.String("repo", "/repo", "repository root")
	verif := fl.String("verif", "/verif", "verification directory")
	prop := fl.String("prop", "", "property id")
	tier := fl.String("tier", "quick", "quick | thorough")
	jobs := fl.Int("j", 6, "parallel obligations")
	baseline := fl.Bool("write-expected", false, "write expected/<id>.txt from this run (unchanged tree only)")
	verbose := fl.Bool("v", false, "verbose")
	var ovs multiFlag
	fl.Var(&ovs, "overlay-file", "real=replacement (repeatable): analyse and replay with a file replaced")
	fl.Parse(args)
	for _, o := range ovs {
		real, repl, ok := strings.Cut(o, "=")
		if ok {
			overlayFiles[real] = repl
		}
	}
	if *prop == "" {
		fmt.Fprintln(os.Stderr, "check: -prop required")
		os.Exit(2)
	}
	if t := os.Getenv("VERIF_TIER"); t == "quick" || t == "thorough" {
		*tier = t
	}
	seed := 0
	if s := os.Getenv("VERIF_SEED"); s != "" {
		seed, _ = strconv.Atoi(s)
	}
	thorough := *tier == "thorough"
	secs := 10
	if thorough {
		secs = 120
	}
	initWorkDir()
	defer os.RemoveAll(workDir)
	t0 := time.Now()
	evPath := filepath.Join(*verif, "evidence", *prop+".json")
	os.MkdirAll(filepath.Dir(evPath), 0o755)
	writeEv := func(ev *evidence) {
		ev.WallS = time.Since(t0).Seconds()
		b, _ := json.MarshalIndent(ev, "", " ")
		os.WriteFile(evPath, append(b, '\n'), 0o644)
	}
	checkerCmd := fmt.Sprintf("./check %s --tier %s  (gocv: go/ssa -> SMT-LIB VCs, raced on z3-new 5.1.0 / cvc5 1.0 / z3 4.8.12)", *prop, *tier)
	pats := contractDirs(*repo)
	ctx, err := Load(*repo, pats)
	if err != nil {
		// the tree does not load (does not compile?): nothing can be decided
		os.RemoveAll(workDir)
		fmt.Printf("UNDECIDED property=%s reason=packages do not load: %v\n", *prop, err)
		writeEv(&evidence{PropertyID: *prop, Tier: *tier, Seed: seed, Level: "other",
			Coverage: map[string]any{"explanation": "packages failed to load, no obligations generated: " + err.Error(), "obligations": 0, "discharged": 0},
			Assumptions: []string{}})
		os.Exit(0)
	}
	sel := func(fc *FuncContract) bool {
		for _, p := range fc.Props {
			if p == *prop {
				return true
			}
		}
		return false
	}
	currentProp = *prop
	frs, all := runAll(ctx, sel, secs, thorough, *jobs, "")
	sort.SliceStable(all, func(i, j int) bool { return all[i].Obl.Name < all[j].Obl.Name })
	expected := loadExpected(filepath.Join(*verif, "expected", *prop+".txt"))
	expectedNorm := map[string]bool{}
	for n := range expected {
		expectedNorm[normName(n)] = true
	}
	known := loadKnownFindings(filepath.Join(*verif, "known-findings.txt"))
	knownByObl := map[string]knownFinding{}
	for _, k := range known {
		if k.Kind == "known" && k.Property == *prop {
			knownByObl[k.Obligation] = k
		}
	}
	// shape of safe obligations per function+kind now vs expected
	shapeNow := map[string]int{}
	shapeExp := map[string]int{}
	for _, or := range all {
		if m := safeShapeRe.FindStringSubmatch(or.Obl.Name); m != nil {
			shapeNow[or.Func.FullName+"|"+m[1]]++
		}
	}
	for n := range expected {
		if m := safeShapeRe.FindStringSubmatch(n); m != nil {
			fn, _, _ := strings.Cut(n, "#")
			shapeExp[fn+"|"+m[1]]++
		}
	}
	violations := 0
	discharged := 0
	var boundedOK []any
	undecided := []string{}
	var samples []any
	bySolver := map[string]int{}
	var solverSecs float64
	assumptions := map[string]bool{}
	var funcs []string
	knownHit := []string{}
	for _, fr := range frs {
		funcs = append(funcs, fr.FullName)
		if fr.Err != "" {
			fmt.Printf("UNDECIDED function=%s reason=%s\n", fr.FullName, fr.Err)
			undecided = append(undecided, fr.FullName+": "+fr.Err)
		}
		if fr.VC != nil {
			for a := range fr.VC.assumed {
				assumptions[a] = true
			}
			for _, n := range fr.VC.notes {
				assumptions["note: "+fr.FullName+": "+n] = true
				if *verbose {
					fmt.Printf("  note[%s]: %s\n", fr.FullName, n)
				}
			}
		}
	}
	seenNames := map[string]bool{}
	// Does the contract still fit the function? A clause that no longer resolves (a renamed local, a
	// range loop rewritten as an index loop) or a changed number of loops (loop clauses are keyed by
	// ordinal) means invariants are missing or attached to the wrong loop: what is refuted then is
	// the stale contract, not the code. Refutations in such a function count only if they replay.
	misfit := map[string]string{}
	metaNow := []string{}
	for _, fr := range frs {
		if fr.VC == nil || fr.VC.rootFr == nil || fr.Contract == nil || fr.Contract.Kind == "lemma" {
			continue
		}
		nerr := 0
		for _, n := range fr.VC.notes {
			if strings.HasPrefix(n, "contract error") {
				nerr++
			}
		}
		ml := fmt.Sprintf("%s#meta:loops=%d", fr.FullName, len(fr.VC.rootFr.loops))
		me := fmt.Sprintf("%s#meta:contracterrors=%d", fr.FullName, nerr)
		mv := fr.FullName + "#meta:loopvars=" + loopVarSignature(fr.VC.rootFr)
		metaNow = append(metaNow, ml, me, mv)
		seenNames[ml], seenNames[me], seenNames[mv] = true, true, true
		expLoops, expErrs := -1, 0
		expVars, haveVars := "", false
		for n := range expected {
			if rest, ok := strings.CutPrefix(n, fr.FullName+"#meta:loops="); ok {
				fmt.Sscan(rest, &expLoops)
			}
			if rest, ok := strings.CutPrefix(n, fr.FullName+"#meta:contracterrors="); ok {
				fmt.Sscan(rest, &expErrs)
			}
			if rest, ok := strings.CutPrefix(n, fr.FullName+"#meta:loopvars="); ok {
				expVars, haveVars = rest, true
			}
		}
		switch {
		case nerr > expErrs:
			misfit[fr.FullName] = "clauses of its contract no longer resolve against the function"
		case expLoops >= 0 && expLoops != len(fr.VC.rootFr.loops):
			misfit[fr.FullName] = "the function's number of loops changed (loop clauses are keyed by ordinal)"
		case haveVars && !loopVarsCover(expVars, loopVarSignature(fr.VC.rootFr)):
			misfit[fr.FullName] = "the loop-carried variables of its loops changed (the invariants were written for other loops)"
		}
	}
	for n := range expected {
		if strings.Contains(n, "#meta:") {
			seenNames[n] = true // compared above, never reported as vanished
		}
	}
	// `panicfree` functions: the claim "never panics" is an obligation of its own, discharged when
	// every run-time-failure obligation of the function is
	panicFreeOK := map[string]bool{}
	for _, fr := range frs {
		if fr.Contract != nil && fr.Contract.PanicFree && fr.Err == "" {
			panicFreeOK[fr.FullName] = true
			seenNames[fr.FullName+"#panicfree"] = true
		}
	}
	for _, or := range all {
		if or.Obl.Kind == "safe" && or.Status != "PROVED" {
			panicFreeOK[or.Func.FullName] = false
		}
	}
	for _, or := range all {
		name := or.Obl.Name
		seenNames[name] = true
		solverSecs += or.Res.Secs
		if or.Res.Solver != "" {
			bySolver[or.Res.Solver]++
		}
		if len(samples) < 6 {
			samples = append(samples, map[string]any{"obligation": name, "kind": or.Obl.Kind, "status": or.Status, "solver": or.Res.Solver,
				"secs": or.Res.Secs, "smt_bytes": len(or.Func.VC.Query(or.Obl, false, false)), "statement": or.Obl.Descr})
		}
		if or.Obl.Bound != "" && (or.Status == "PROVED" || or.Status == "COVERED") {
			// a bounded stand-in: reported, never counted as proved
			entry := map[string]any{"obligation": name, "bound": or.Obl.Bound, "statement": or.Obl.Descr, "solver": or.Res.Solver, "secs": or.Res.Secs}
			if thorough && or.Obl.FullReach.Valid() {
				// thorough tier: also try the clause without the bound, with the long time limit. A
				// proof upgrades nothing in the accounting (the clause stays a stand-in in the quick
				// tier) but is recorded; a counterexample outside the bound counts only if it
				// replays on the real code.
				full := *or.Obl
				full.Reach = or.Obl.FullReach
				full.Bound = ""
				fr := Solve(or.Func.VC, &full, secs, false, "ub")
				switch fr.Status {
				case "unsat":
					entry["without_bound"] = fmt.Sprintf("proved in the thorough tier (%s, %.1fs)", fr.Solver, fr.Secs)
				case "sat":
					ro := Replay(ctx, or.Func, &full, secs)
					if ro.Confirmed {
						violations++
						dir := filepath.Join(*verif, "replays", *prop)
						os.MkdirAll(dir, 0o755)
						rp := filepath.Join(dir, sanitize(strings.TrimPrefix(name, "github.com/NethermindEth/juno/"))+".unbounded.json")
						b, _ := json.MarshalIndent(replayFile{Property: *prop, Obligation: name + " (without its bound)", Kind: or.Obl.Kind, Description: or.Obl.Descr,
							Position: or.Obl.Pos.String(), Solver: fr.Solver, Model: fr.Model, Replay: ro.Status, ReplayInfo: ro.Detail, TestSrc: ro.TestSrc, TestOutput: firstLines(ro.Output, 60)}, "", " ")
						os.WriteFile(rp, b, 0o644)
						fmt.Printf("  refuted outside its bound: %s\n  replay: %s\n", name, ro.Detail)
						fmt.Printf("VIOLATION property=%s replay=%s\n", *prop, rp)
						entry["without_bound"] = "counterexample outside the bound, replayed on the real code"
					} else {
						entry["without_bound"] = "solver reports a counterexample outside the bound; it does not replay on the real code (" + ro.Status + "): undecided"
					}
				default:
					entry["without_bound"] = fmt.Sprintf("undecided in the thorough tier (%s after %.0fs)", fr.Status, fr.Secs)
				}
			}
			boundedOK = append(boundedOK, entry)
			continue
		}
		switch or.Status {
		case "PROVED", "COVERED":
			discharged++
			if *verbose {
				fmt.Printf("%-9s %s [%s %.2fs]\n", or.Status, name, or.Res.Solver, or.Res.Secs)
			}
		case "VACUOUS":
			fmt.Printf("UNDECIDED obligation=%s reason=vacuous: %s\n", name, or.Reason)
			undecided = append(undecided, name+": vacuous")
		case "UNDECIDED":
			fmt.Printf("UNDECIDED obligation=%s reason=%s\n", name, or.Reason)
			undecided = append(undecided, name+": "+or.Reason)
		case "REFUTED":
			if or.Res.Status == "disagree" {
				fmt.Printf("ENGINE-ERROR obligation=%s solvers disagree: %v\n", name, or.Res.All)
				undecided = append(undecided, name+": solvers disagree")
				continue
			}
			if k, ok := knownByObl[name]; ok {
				fmt.Printf("KNOWN-FINDING: property=%s %s (obligation %s)\n", *prop, k.Text, name)
				knownHit = append(knownHit, name)
				continue
			}
			// taint?
			tainted := false
			if or.Obl.Taint.Valid() && or.Obl.Taint.S != "false" {
				vals := parseModelValues(or.Res.Model)
				if or.Obl.Taint.S == "true" || (len(vals) > 0 && vals[0].Atom == "true") {
					tainted = true
				}
			}
			ro := Replay(ctx, or.Func, or.Obl, secs)
			if os.Getenv("GOCV_DEBUG") != "" && ro.Status == "error" {
				fmt.Println(ro.TestSrc)
				fmt.Println(ro.Output)
			}
			rf := replayFile{Property: *prop, Obligation: name, Kind: or.Obl.Kind, Description: or.Obl.Descr, Position: or.Obl.Pos.String(),
				Solver: or.Res.Solver, SolverOut: firstLines(or.Res.Raw, 40), Model: or.Res.Model, Replay: ro.Status, ReplayInfo: ro.Detail,
				TestSrc: ro.TestSrc, TestOutput: firstLines(ro.Output, 60), Notes: or.Func.VC.notes}
			if or.Func.VC.root != nil {
				rf.Package = filepath.Dir(ctx.prog.Fset.Position(or.Func.VC.root.Pos()).Filename)
			}
			isViolation := false
			suffix := ""
			switch {
			case ro.Confirmed:
				isViolation = true
			case ro.Status == "mismatch" && !or.Func.VC.nondet:
				if os.Getenv("GOCV_DEBUG") != "" {
					fmt.Println(ro.TestSrc)
					fmt.Println(ro.Output)
				}
				fmt.Printf("UNDECIDED obligation=%s reason=counterexample does not replay on the real code (%s)\n", name, ro.Detail)
				undecided = append(undecided, name+": spurious counterexample")
			default:
				shapeOK := true
				if m := safeShapeRe.FindStringSubmatch(name); m != nil {
					key := or.Func.FullName + "|" + m[1]
					shapeOK = shapeNow[key] == shapeExp[key]
				}
				claimedPanicFree := or.Obl.Kind == "safe" && or.Func.Contract != nil && or.Func.Contract.PanicFree && expected[or.Func.FullName+"#panicfree"]
				if claimedPanicFree {
					shapeOK = true
				}
				mis := misfit[or.Func.FullName]
				if mis != "" && !tainted && !strings.HasPrefix(or.Obl.Kind, "inv") && or.Obl.Kind != "dec" && or.Obl.Kind != "frame" &&
					(expected[name] || expectedNorm[normName(name)]) {
					// The contract's loop clauses no longer fit. Decide the obligation on the paths that
					// need no invariant: those that leave every loop before completing an iteration.
					// A counterexample there is a real path of the function (callees by contract).
					if firstIterRefuted(ctx, or, secs) {
						mis = ""
						shapeOK = true
						rf.ReplayInfo += " | the contract's loop clauses no longer fit the function; refuted on the paths through at most three unrolled copies of each loop body (no invariant, no havoc: real paths of the function)"
					}
				}
				if (expected[name] || claimedPanicFree || (or.Obl.Kind != "safe" && expectedNorm[normName(name)])) && shapeOK && !tainted && mis == "" {
					isViolation = true
					suffix = " no-failing-input-found"
				} else {
					why := "not discharged on the unchanged tree"
					if tainted {
						why = "path goes through unmodelled code"
					} else if !shapeOK {
						why = "obligation set of this function changed shape"
					} else if mis != "" {
						why = "the contract no longer fits the function: " + mis
					}
					fmt.Printf("UNDECIDED obligation=%s reason=refuted but %s and no replay (%s)\n", name, why, ro.Detail)
					undecided = append(undecided, name+": refuted, unconfirmed")
				}
			}
			if isViolation {
				violations++
				dir := filepath.Join(*verif, "replays", *prop)
				os.MkdirAll(dir, 0o755)
				rp := filepath.Join(dir, sanitize(strings.TrimPrefix(name, "github.com/NethermindEth/juno/"))+".json")
				b, _ := json.MarshalIndent(rf, "", " ")
				os.WriteFile(rp, b, 0o644)
				fmt.Printf("  refuted: %s\n  at %s: %s\n", name, or.Obl.Pos, or.Obl.Descr)
				if ro.Detail != "" {
					fmt.Printf("  replay: %s\n", ro.Detail)
				}
				fmt.Printf("VIOLATION property=%s replay=%s%s\n", *prop, rp, suffix)
			}
		}
	}
	// A function whose loop clauses no longer fit AND whose invariant obligations are refuted: its
	// postconditions and call-site clauses were discharged from invariants that do not hold. They
	// are decided again on the unrolled under-approximation (real paths): one that is refuted there
	// is a violation although the invariant-based condition "proved" it.
	{
		byFunc := map[string][]*OblResult{}
		invRefuted := map[string]bool{}
		for _, or := range all {
			fn := or.Func.FullName
			byFunc[fn] = append(byFunc[fn], or)
			if or.Status == "REFUTED" && strings.HasPrefix(or.Obl.Kind, "inv") {
				invRefuted[fn] = true
			}
		}
		var fns []string
		for fn := range invRefuted {
			if misfit[fn] != "" {
				fns = append(fns, fn)
			}
		}
		sort.Strings(fns)
		for _, fn := range fns {
			var cands []*OblResult
			for _, or := range byFunc[fn] {
				if or.Status == "PROVED" && (or.Obl.Kind == "ensures" || or.Obl.Kind == "callsite") && or.Obl.Bound == "" &&
					(expected[or.Obl.Name] || expectedNorm[normName(or.Obl.Name)]) {
					cands = append(cands, or)
				}
			}
			for _, or := range cands {
				if _, ok := knownByObl[or.Obl.Name]; ok {
					continue
				}
				if !firstIterRefuted(ctx, or, secs) {
					continue
				}
				name := or.Obl.Name
				violations++
				discharged--
				dir := filepath.Join(*verif, "replays", *prop)
				os.MkdirAll(dir, 0o755)
				rp := filepath.Join(dir, sanitize(strings.TrimPrefix(name, "github.com/NethermindEth/juno/"))+".json")
				rf := replayFile{Property: *prop, Obligation: name, Kind: or.Obl.Kind, Description: or.Obl.Descr, Position: or.Obl.Pos.String(),
					Replay:     "not-replayable",
					ReplayInfo: "the contract's loop clauses no longer fit the function (" + misfit[fn] + ") and its loop invariants are refuted, so the invariant-based condition for this clause proves nothing; the clause is refuted on the paths through at most three unrolled copies of each loop body (no invariant, no havoc: real paths of the function, callees by contract)",
					Notes:      or.Func.VC.notes}
				if or.Func.VC.root != nil {
					rf.Package = filepath.Dir(ctx.prog.Fset.Position(or.Func.VC.root.Pos()).Filename)
				}
				b, _ := json.MarshalIndent(rf, "", " ")
				os.WriteFile(rp, b, 0o644)
				fmt.Printf("  refuted: %s\n  at %s: %s\n  replay: refuted on the unrolled paths of a function whose loop clauses no longer fit\n", name, or.Obl.Pos, or.Obl.Descr)
				fmt.Printf("VIOLATION property=%s replay=%s no-failing-input-found\n", *prop, rp)
			}
		}
	}
	// expected obligations that vanished
	missing := []string{}
	seenNorm := map[string]bool{}
	for n := range seenNames {
		seenNorm[normName(n)] = true
	}
	for n := range expected {
		if !seenNames[n] && !seenNorm[normName(n)] {
			missing = append(missing, n)
		}
	}
	sort.Strings(missing)
	for _, m := range missing {
		fmt.Printf("UNDECIDED obligation=%s reason=no longer generated (function or contract changed)\n", m)
		undecided = append(undecided, m+": no longer generated")
	}
	if *baseline {
		var names []string
		for _, or := range all {
			if or.Status == "PROVED" || or.Status == "COVERED" {
				names = append(names, or.Obl.Name)
			}
		}
		names = append(names, metaNow...)
		sort.Strings(names)
		os.MkdirAll(filepath.Join(*verif, "expected"), 0o755)
		os.WriteFile(filepath.Join(*verif, "expected", *prop+".txt"), []byte("# obligations discharged on the unchanged tree\n"+strings.Join(names, "\n")+"\n"), 0o644)
	}
	// known findings are refuted obligations that the committed known-findings file lists by name:
	// like bounded stand-ins they are reported separately and not counted among the obligations
	// the run claims to have discharged
	total := len(all) - len(boundedOK) - len(knownHit)
	level := "proof"
	as := []string{"integers are modelled exactly (mathematical Int with explicit mod 2^w wrap, or bit-vectors); no concurrency, crash, I/O or resource-limit behaviour is modelled (DESIGN.md §4)"}
	for a := range assumptions {
		as = append(as, a)
	}
	sort.Strings(as)
	trusted := []string{"gocv VC generator (go/ssa v0.50.0 -> SMT-LIB)", "z3 5.1.0 / cvc5 1.0 / z3 4.8.12", "go/types, go/ssa construction of the SSA form from /repo sources"}
	for _, a := range as {
		if strings.HasPrefix(a, "assumed contract") {
			trusted = append(trusted, a)
		}
	}
	cov := map[string]any{
		"obligations": total, "discharged": discharged, "checker_cmd": checkerCmd, "trusted_base": trusted,
		"functions_under_contract": funcs, "by_solver": bySolver, "solver_time_s": solverSecs,
		"undecided": undecided, "known_findings_hit": knownHit, "samples": samples, "missing_expected": missing,
		"known_findings_note": "obligations listed under 'known_findings_hit' are REFUTED on this tree and recorded as known findings (known-findings.txt); they are not counted in obligations/discharged",
		"bounded": boundedOK, "bounded_note": "obligations listed under 'bounded' were checked only for inputs within the stated bound: stand-ins, not proofs, and not counted in obligations/discharged",
	}
	if boundedOK == nil {
		cov["bounded"] = []any{}
	}
	if total == 0 || discharged != total || len(undecided) > 0 {
		level = "other"
		cov["explanation"] = fmt.Sprintf("%d of %d obligations discharged; %d undecided, %d known findings, %d violations: not every obligation is proved in this run, so the run is reported as 'other', not 'proof'",
			discharged, total, len(undecided), len(knownHit), violations)
	}
	if total == 0 {
		fmt.Printf("ENGINE-ERROR property=%s no obligations generated\n", *prop)
	}
	writeEv(&evidence{PropertyID: *prop, Tier: *tier, Seed: seed, Level: level, Coverage: cov, Assumptions: as, Violations: violations})
	fmt.Printf("property=%s tier=%s functions=%d obligations=%d discharged=%d bounded=%d undecided=%d known=%d violations=%d wall=%.1fs\n",
		*prop, *tier, len(frs), total, discharged, len(boundedOK), len(undecided), len(knownHit), violations, time.Since(t0).Seconds())
	os.RemoveAll(workDir)
	if violations > 0 {
		os.Exit(1)
	}
	if total == 0 {
		os.Exit(2)
	}
}

type multiFlag []string

func (m *multiFlag) String() string     { return strings.Join(*m, ",") }
func (m *multiFlag) Set(v string) error { *m = append(*m, v); return nil }

func firstLines(s string, n int) string {
	lines := strings.Split(s, "\n")
	if len(lines) > n {
		lines = append(lines[:n], "...")
	}
	return strings.Join(lines, "\n")
}

func cmdReplay(args []string) {
	if len(args) < 1 {
		fmt.Fprintln(os.Stderr, "replay <file.json>")
		os.Exit(2)
	}
	b, err := os.ReadFile(args[0])
	if err != nil {
		fmt.Fprintln(os.Stderr, err)
		os.Exit(2)
	}
	var rf replayFile
	if err := json.Unmarshal(b, &rf); err != nil {
		fmt.Fprintln(os.Stderr, err)
		os.Exit(2)
	}
	fmt.Printf("obligation: %s\nat: %s\nstatement: %s\nsolver: %s\nmodel: %s\n", rf.Obligation, rf.Position, rf.Description, rf.Solver, rf.Model)
	if rf.TestSrc == "" || rf.Package == "" {
		fmt.Println("no executable witness recorded (no-failing-input-found); solver output:")
		fmt.Println(rf.SolverOut)
		os.Exit(1)
	}
	out, _ := runReplayTestIn(rf.Package, rf.TestSrc)
	fmt.Println(out)
	if strings.Contains(out, "GOCV-REPLAY: confirmed") {
		os.Exit(1)
	}
	os.Exit(0)
}

// loopVarSignature: per loop (by ordinal) the source names of its loop-carried variables.
// loopVarsCover: every loop of the recorded signature still exists under its ordinal and still
// carries every variable it carried then. A loop that has GAINED a loop-carried variable is the same
// loop for the invariants written for it (they name the old variables, which are all still there);
// one that lost or renamed a variable is not.
func loopVarsCover(exp, now string) bool {
	parse := func(sig string) map[string]map[string]bool {
		m := map[string]map[string]bool{}
		for _, part := range strings.Split(sig, ";") {
			if part == "" {
				continue
			}
			ord, names, _ := strings.Cut(part, ":")
			set := map[string]bool{}
			for _, n := range strings.Split(names, ",") {
				if n != "" {
					set[n] = true
				}
			}
			m[ord] = set
		}
		return m
	}
	e, n := parse(exp), parse(now)
	if len(e) != len(n) {
		return false
	}
	for ord, names := range e {
		cur, ok := n[ord]
		if !ok {
			return false
		}
		for nm := range names {
			if !cur[nm] {
				return false
			}
		}
	}
	return true
}

func loopVarSignature(fr *Frame) string {
	var parts []string
	for h, li := range fr.loops {
		var names []string
		for _, in := range h.Instrs {
			phi, ok := in.(*ssa.Phi)
			if !ok {
				break
			}
			names = append(names, phi.Comment)
		}
		sort.Strings(names)
		parts = append(parts, fmt.Sprintf("%03d:%s", li.ordinal, strings.Join(names, ",")))
	}
	sort.Strings(parts)
	return strings.Join(parts, ";")
}

// firstIterRefuted re-generates the function's conditions in the under-approximating mode (loops
// entered without havoc, paths cut at back edges) and asks whether the obligation of the same name
// is refuted there.
// underApproxCache: the under-approximating conditions of a function, generated once per check run
// and unrolling depth.
var underApproxCache = map[string]*FuncResult{}

// underApproxBudget: the decisions on the under-approximation are an extra for changed code; one check
// run spends at most this long on them (what is not decided in time stays UNDECIDED).
var underApproxDeadline time.Time

func firstIterRefuted(ctx *Ctx, or *OblResult, secs int) bool {
	if underApproxDeadline.IsZero() {
		underApproxDeadline = time.Now().Add(150 * time.Second)
	}
	if time.Now().After(underApproxDeadline) {
		return false
	}
	ctx.firstIter = true
	defer func() { ctx.firstIter, ctx.unroll = false, 0 }()
	// first the paths that leave every loop before completing an iteration, then the paths through
	// at most three copies of each loop body (unrolled, no invariant, no havoc)
	for _, k := range []int{1, 3} {
		ctx.unroll = k
		ck := fmt.Sprintf("%s|%d", or.Func.FullName, k)
		fr, cached := underApproxCache[ck]
		if !cached {
			fr = ctx.GenVC(or.Func.Contract)
			underApproxCache[ck] = fr
			if fr != nil && fr.VC != nil && fr.Err == "" {
				useCoreTypes = fr.Contract.CoreTypes
				fr.VC.declsCache = fr.VC.tt.Decls()
			}
		}
		if fr == nil || fr.VC == nil || fr.Err != "" {
			return false
		}
		useCoreTypes = fr.Contract.CoreTypes
		want := normName(or.Obl.Name)
		for _, o := range fr.Obls {
			if normName(o.Name) != want || o.Bound != "" {
				continue
			}
			if o.Taint.Valid() && o.Taint.S == "true" {
				continue // reached only through something the under-approximation abstracts (unmodelled call, range-over-func loop)
			}
			if o.Taint.Valid() && o.Taint.S != "false" {
				// abstracted on some paths: the refutation must be on one that is not
				oc := *o
				oc.Reach = And(o.Reach, Not(o.Taint))
				o = &oc
			}
			r := Solve(fr.VC, o, secs, false, "fi")
			if r.Status == "sat" {
				return true
			}
		}
	}
	return false
}
