package main

import (
	"flag"
	"fmt"
	"os"
	"regexp"
	"sort"
	"strings"
	"sync"
	"time"
)

type OblResult struct {
	Obl    *Obligation
	Func   *FuncResult
	Res    SolveResult
	Status string // PROVED | REFUTED | UNDECIDED | COVERED | VACUOUS
	Reason string
}

func main() {
	os.Setenv("PATH", "/opt/veriftools/go1.26.8/bin:"+os.Getenv("PATH"))
	os.Setenv("GOFLAGS", "-mod=mod")
	os.Setenv("GOPROXY", "off")
	os.Setenv("GOSUMDB", "off")
	os.Setenv("GOTOOLCHAIN", "local")
	if len(os.Args) < 2 {
		fmt.Fprintln(os.Stderr, "usage: gocv <verify|check|dump> ...")
		os.Exit(2)
	}
	switch os.Args[1] {
	case "verify":
		cmdVerify(os.Args[2:])
	case "check":
		cmdCheck(os.Args[2:])
	case "replay":
		cmdReplay(os.Args[2:])
	case "split":
		// debugging aid: run the cube-and-conquer solver on a dumped query
		b, err := os.ReadFile(os.Args[2])
		if err != nil {
			fmt.Fprintln(os.Stderr, err)
			os.Exit(2)
		}
		initWorkDir()
		r, ok := solveSplit(string(b), 10, "dbg")
		fmt.Println(ok, r.Status, r.Solver, r.Secs)
		os.RemoveAll(workDir)
	case "ssa":
		ctx, err := Load("/repo", []string{os.Args[2]})
		if err != nil {
			fmt.Fprintln(os.Stderr, err)
			os.Exit(2)
		}
		for _, sp := range ctx.spkg {
			if ctx.byPath[sp.Pkg.Path()] == nil {
				continue
			}
			fc := &FuncContract{PkgPath: sp.Pkg.Path(), Key: os.Args[3]}
			if f := ctx.funcFor(fc); f != nil {
				f.WriteTo(os.Stdout)
				for _, af := range f.AnonFuncs {
					af.WriteTo(os.Stdout)
				}
			}
		}
	default:
		fmt.Fprintln(os.Stderr, "unknown command", os.Args[1])
		os.Exit(2)
	}
}

// runAll generates and solves the obligations of the selected contracts.
func runAll(ctx *Ctx, sel func(*FuncContract) bool, secs int, thorough bool, jobs int, dumpDir string) ([]*FuncResult, []*OblResult) {
	var frs []*FuncResult
	for _, fc := range ctx.all {
		if fc.Kind == "extern" || fc.Trusted || fc.IsIface || !sel(fc) {
			continue
		}
		frs = append(frs, ctx.GenVC(fc))
	}
	var all []*OblResult
	for _, fr := range frs {
		if fr.VC != nil {
			useCoreTypes = fr.Contract.CoreTypes
			fr.VC.declsCache = fr.VC.tt.Decls()
		}
		for _, o := range fr.Obls {
			if currentProp != "" && len(fr.Contract.OnlyProp) > 0 {
				short := o.Name
				if i := strings.LastIndex(short, "#"); i >= 0 {
					short = short[i+1:]
				}
				if m := oblLabelRe.FindStringSubmatch(short); m != nil {
					if p, ok := fr.Contract.OnlyProp[m[1]]; ok && p != currentProp {
						continue
					}
				}
			}
			all = append(all, &OblResult{Obl: o, Func: fr})
		}
	}
	sem := make(chan struct{}, jobs)
	var wg sync.WaitGroup
	for i, or := range all {
		wg.Add(1)
		sem <- struct{}{}
		go func(i int, or *OblResult) {
			defer wg.Done()
			defer func() { <-sem }()
			tag := fmt.Sprintf("o%d", i)
			if dumpDir != "" {
				os.WriteFile(fmt.Sprintf("%s/%s.smt2", dumpDir, sanitize(or.Obl.Name)), []byte(or.Func.VC.Query(or.Obl, false, true)), 0o644)
			}
			if or.Obl.IsCover {
				// satisfiability under quantified background axioms is what solvers are worst at:
				// try briefly with them, then without (a model of the weaker formula still shows
				// that the precondition is not contradictory and a return is reachable)
				short := 3
				if secs < short {
					short = secs
				}
				or.Res = Solve(or.Func.VC, or.Obl, short, false, tag)
				if or.Res.Status != "sat" && or.Res.Status != "unsat" {
					relaxed := *or.Obl
					relaxed.relaxAxioms = true
					r2 := Solve(or.Func.VC, &relaxed, secs, false, tag+"r")
					if r2.Status == "sat" {
						or.Res = r2
					}
				}
			} else {
				or.Res = Solve(or.Func.VC, or.Obl, secs, thorough, tag)
			}
			classify(or)
		}(i, or)
	}
	wg.Wait()
	// Second chance: what timed out while everything ran in parallel is retried one obligation
	// at a time (all cores to one query and its cubes) with twice the time limit. A time-out
	// under load says something about the load, not about the obligation.
	for i, or := range all {
		if or.Obl.IsCover || (or.Res.Status != "timeout" && or.Res.Status != "unknown") {
			continue
		}
		or.Res = Solve(or.Func.VC, or.Obl, 2*secs, thorough, fmt.Sprintf("o%dx", i))
		or.Reason = ""
		classify(or)
	}
	return frs, all
}

// currentProp: the property being checked (clauses marked onlyprop for another one are skipped).
var currentProp string

var oblLabelRe = regexp.MustCompile(`^(?:ensures:|inv:[^.]*\.|callsite:[^.]*\.)([A-Za-z_][A-Za-z0-9_]*)`)

func classify(or *OblResult) {
	r := or.Res
	if or.Obl.IsCover {
		switch r.Status {
		case "sat":
			or.Status = "COVERED"
		case "unsat":
			or.Status = "VACUOUS"
			or.Reason = "precondition unsatisfiable or no return reachable"
		default:
			or.Status = "UNDECIDED"
			or.Reason = "cover check: " + r.Status
		}
		return
	}
	switch r.Status {
	case "unsat":
		or.Status = "PROVED"
	case "sat":
		or.Status = "REFUTED"
	default:
		or.Status = "UNDECIDED"
		or.Reason = "solver: " + r.Status
	}
}

func cmdVerify(args []string) {
	fs := flag.NewFlagSet("verify", flag.ExitOnError)
	repo := fs.String("repo", "/repo", "repository root")
	fre := fs.String("func", "", "regexp on contract full names")
	prop := fs.String("prop", "", "property id")
	secs := fs.Int("timeout", 10, "per-obligation timeout (s)")
	thorough := fs.Bool("thorough", false, "run all solvers to agreement")
	jobs := fs.Int("j", 6, "parallel obligations")
	dump := fs.String("dump", "", "directory to dump SMT queries into")
	verbose := fs.Bool("v", false, "verbose")
	unroll := fs.Int("unroll", 0, "validation: encode in the under-approximating mode with this many copies of each loop body; on code whose contracts hold no obligation may be refuted there")
	fs.Parse(args)
	initWorkDir()
	defer os.RemoveAll(workDir)
	t0 := time.Now()
	ctx, err := Load(*repo, fs.Args())
	if err == nil && *unroll > 0 {
		ctx.firstIter, ctx.unroll = true, *unroll
	}
	if err != nil {
		fmt.Fprintln(os.Stderr, "load:", err)
		os.RemoveAll(workDir)
		os.Exit(2)
	}
	fmt.Printf("loaded in %.1fs, %d contract files, %d contracts\n", time.Since(t0).Seconds(), len(ctx.files), len(ctx.all))
	for _, cf := range ctx.files {
		for _, e := range cf.Errors {
			fmt.Println("CONTRACT-ERROR", e)
		}
	}
	var re *regexp.Regexp
	if *fre != "" {
		re = regexp.MustCompile(*fre)
	}
	sel := func(fc *FuncContract) bool {
		if re != nil && !re.MatchString(ctx.fullName(fc)) {
			return false
		}
		if *prop != "" {
			ok := false
			for _, p := range fc.Props {
				if p == *prop {
					ok = true
				}
			}
			return ok
		}
		return true
	}
	if *dump != "" {
		os.MkdirAll(*dump, 0o755)
	}
	currentProp = *prop
	frs, all := runAll(ctx, sel, *secs, *thorough, *jobs, *dump)
	for _, fr := range frs {
		if fr.Err != "" {
			fmt.Printf("UNDECIDED function=%s reason=%s\n", fr.FullName, fr.Err)
		}
		if fr.VC != nil && *verbose {
			for _, n := range fr.VC.notes {
				fmt.Printf("  note[%s]: %s\n", fr.FullName, n)
			}
		}
	}
	sort.SliceStable(all, func(i, j int) bool { return all[i].Obl.Name < all[j].Obl.Name })
	counts := map[string]int{}
	for _, or := range all {
		counts[or.Status]++
		line := fmt.Sprintf("%-9s %s  [%s %.2fs]", or.Status, or.Obl.Name, or.Res.Solver, or.Res.Secs)
		if or.Reason != "" {
			line += " " + or.Reason
		}
		fmt.Println(line)
		if or.Status == "REFUTED" {
			fmt.Printf("    at %s: %s\n    model: %s\n", or.Obl.Pos, or.Obl.Descr, strings.ReplaceAll(or.Res.Model, "\n", " "))
		}
		if or.Res.Status == "error" && *verbose {
			fmt.Printf("    solver output: %s\n", or.Res.Raw)
		}
	}
	fmt.Printf("summary: %v  wall %.1fs\n", counts, time.Since(t0).Seconds())
}

