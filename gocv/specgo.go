package main

import (
	"fmt"
	"strings"
)

// Executable specifications for replay: a postcondition clause is translated to a Go boolean
// expression over the arguments the test passes (a<i>), a second, untouched copy of them built
// from the same literals (o<i>, what old() refers to) and the results of the real call (r<i>).
// The replay then asks the real code the only question that matters: do the values it
// produces on the counterexample's inputs violate the clause? (Comparing its outputs with the
// model's outputs, the fallback, fails as soon as the model contains an abstracted function.)
//
// The translation covers the executable fragment: Go operators, ==> / <==>, ite, old, len/cap,
// min/max, in(m,k), field/index/slice/deref, pure spec functions (inlined), quantifiers whose
// body has the shape  lo <= x && x < hi ==> P  (a loop over the range, capped), integer
// conversions. Ghost functions, ghost variables, call logs, fresh(), bit-vector helpers wider
// than 64 bits are not executable: the translation fails and the caller falls back.

type goSpec struct {
	ctx     *Ctx
	pkgPath string
	params  map[string]int // parameter / receiver name -> argument index
	results map[string]int // result names (result, result0.., named) -> result index
	bound   map[string]string
	needIte bool
	depth   int
	pol     int // polarity of the position being translated: +1 positive, -1 negative, 0 mixed
}

// withPol translates e with the polarity multiplied by f (0: unknown polarity).
func (g *goSpec) withPol(f int, e *Expr, old bool) (string, error) {
	saved := g.pol
	g.pol = saved * f
	s, err := g.tr(e, old)
	g.pol = saved
	return s, err
}

const specLoopCap = 1 << 16

func (g *goSpec) tr(e *Expr, old bool) (string, error) {
	g.depth++
	defer func() { g.depth-- }()
	if g.depth > 60 {
		return "", fmt.Errorf("expression too deep")
	}
	switch e.Kind {
	case EIdent:
		if b, ok := g.bound[e.Name]; ok {
			return b, nil
		}
		if i, ok := g.params[e.Name]; ok {
			if old {
				return fmt.Sprintf("o%d", i), nil
			}
			return fmt.Sprintf("a%d", i), nil
		}
		if i, ok := g.results[e.Name]; ok {
			if old {
				return "", fmt.Errorf("result inside old()")
			}
			return fmt.Sprintf("r%d", i), nil
		}
		if _, ok := g.ctx.ghostVars[g.pkgPath+"::"+e.Name]; ok {
			return "", fmt.Errorf("ghost variable %s is not executable", e.Name)
		}
		if strings.HasPrefix(e.Name, "calls_") || strings.HasPrefix(e.Name, "arg_") {
			return "", fmt.Errorf("call log %s is not executable", e.Name)
		}
		// package-level constant / variable / type name
		return e.Name, nil
	case EInt:
		return e.Val.String(), nil
	case EBool:
		return fmt.Sprint(e.B), nil
	case ENil:
		return "nil", nil
	case EStr:
		return fmt.Sprintf("%q", e.Name), nil
	case EUnary:
		f := 0
		if e.Op == "!" {
			f = -1
		}
		x, err := g.withPol(f, e.Args[0], old)
		if err != nil {
			return "", err
		}
		return "(" + e.Op + x + ")", nil
	case EBinary:
		switch e.Op {
		case "==>":
			a, err := g.withPol(-1, e.Args[0], old)
			if err != nil {
				return "", err
			}
			b, err := g.tr(e.Args[1], old)
			if err != nil {
				return "", err
			}
			return "(!(" + a + ") || (" + b + "))", nil
		case "<==>":
			a, err := g.withPol(0, e.Args[0], old)
			if err != nil {
				return "", err
			}
			b, err := g.withPol(0, e.Args[1], old)
			if err != nil {
				return "", err
			}
			return "((" + a + ") == (" + b + "))", nil
		}
		// A op ite(c, x, y): distribute, so that untyped constants in the branches take A's type
		for side := 0; side < 2; side++ {
			it := e.Args[side]
			if it.Kind == ECall && it.Args[0].Kind == EIdent && it.Args[0].Name == "ite" && len(it.Args) == 4 && isCompare(e.Op) {
				c, err := g.withPol(0, it.Args[1], old)
				if err != nil {
					return "", err
				}
				mk := func(branch *Expr) (string, error) {
					n := *e
					n.Args = []*Expr{e.Args[0], e.Args[1]}
					n.Args[side] = branch
					return g.tr(&n, old)
				}
				x, err := mk(it.Args[2])
				if err != nil {
					return "", err
				}
				y, err := mk(it.Args[3])
				if err != nil {
					return "", err
				}
				return "(((" + c + ") && " + x + ") || (!(" + c + ") && " + y + "))", nil
			}
		}
		f := 0
		if e.Op == "&&" || e.Op == "||" {
			f = 1
		}
		a, err := g.withPol(f, e.Args[0], old)
		if err != nil {
			return "", err
		}
		b, err := g.withPol(f, e.Args[1], old)
		if err != nil {
			return "", err
		}
		return "(" + a + " " + e.Op + " " + b + ")", nil
	case EField:
		x, err := g.tr(e.Args[0], old)
		if err != nil {
			return "", err
		}
		return x + "." + e.Op, nil
	case EIndex:
		x, err := g.tr(e.Args[0], old)
		if err != nil {
			return "", err
		}
		i, err := g.tr(e.Args[1], old)
		if err != nil {
			return "", err
		}
		return x + "[" + i + "]", nil
	case ESlice:
		x, err := g.tr(e.Args[0], old)
		if err != nil {
			return "", err
		}
		lo, hi := "", ""
		if e.Args[1] != nil {
			if lo, err = g.tr(e.Args[1], old); err != nil {
				return "", err
			}
		}
		if e.Args[2] != nil {
			if hi, err = g.tr(e.Args[2], old); err != nil {
				return "", err
			}
		}
		return x + "[" + lo + ":" + hi + "]", nil
	case ECall:
		return g.call(e, old)
	case EQuant:
		return g.quant(e, old)
	}
	return "", fmt.Errorf("not executable: %s", e.String())
}

func isCompare(op string) bool {
	switch op {
	case "==", "!=", "<", "<=", ">", ">=":
		return true
	}
	return false
}

func (g *goSpec) call(e *Expr, old bool) (string, error) {
	fn := e.Args[0]
	args := e.Args[1:]
	trAll := func() ([]string, error) {
		var out []string
		for _, a := range args {
			s, err := g.withPol(0, a, old)
			if err != nil {
				return nil, err
			}
			out = append(out, s)
		}
		return out, nil
	}
	if fn.Kind != EIdent {
		return "", fmt.Errorf("not executable: call of %s", fn.String())
	}
	switch fn.Name {
	case "old":
		if len(args) != 1 {
			return "", fmt.Errorf("old/1")
		}
		return g.tr(args[0], true)
	case "len", "cap", "min", "max", "string":
		as, err := trAll()
		if err != nil {
			return "", err
		}
		return fn.Name + "(" + strings.Join(as, ", ") + ")", nil
	case "uint8", "uint16", "uint32", "uint64", "int8", "int16", "int32", "int64", "uint", "int", "byte":
		as, err := trAll()
		if err != nil || len(as) != 1 {
			return "", fmt.Errorf("conversion: %v", err)
		}
		return fn.Name + "(" + as[0] + ")", nil
	case "ite":
		as, err := trAll()
		if err != nil || len(as) != 3 {
			return "", fmt.Errorf("ite/3: %v", err)
		}
		g.needIte = true
		return "gocvIte(" + strings.Join(as, ", ") + ")", nil
	case "fresh":
		// allocation freshness is not observable by a test: the conjunct is dropped (weaker
		// clause: a violation of the rest is still a violation of the clause)
		if g.pol != 1 {
			return "", fmt.Errorf("fresh() in a non-positive position is not executable")
		}
		return "true", nil
	case "in":
		as, err := trAll()
		if err != nil || len(as) != 2 {
			return "", fmt.Errorf("in/2: %v", err)
		}
		return "func() bool { _, ok := " + as[0] + "[" + as[1] + "]; return ok }()", nil
	}
	if pf, ok := g.ctx.pures[g.pkgPath+"."+fn.Name]; ok {
		if len(pf.Params) != len(args) {
			return "", fmt.Errorf("pure func %s: arity", pf.Name)
		}
		as, err := trAll()
		if err != nil {
			return "", err
		}
		saved := g.bound
		nb := map[string]string{}
		for k, v := range saved {
			nb[k] = v
		}
		for i, p := range pf.Params {
			nb[p.Name] = "(" + as[i] + ")"
		}
		g.bound = nb
		// the arguments are already translated in the caller's old-ness; inside the body only
		// bound names occur, so the flag no longer matters for them
		body, err := g.tr(pf.Body, old)
		g.bound = saved
		if err != nil {
			return "", err
		}
		return "(" + body + ")", nil
	}
	if gf, ok := g.ctx.ghosts[g.pkgPath+"."+fn.Name]; ok && gf.Exec != nil {
		if len(gf.Params) != len(args) {
			return "", fmt.Errorf("ghost func %s: arity", gf.Name)
		}
		as, err := trAll()
		if err != nil {
			return "", err
		}
		saved := g.bound
		nb := map[string]string{}
		for k, v := range saved {
			nb[k] = v
		}
		for i, p := range gf.Params {
			nb[p.Name] = "(" + as[i] + ")"
		}
		g.bound = nb
		body, err := g.tr(gf.Exec, old)
		g.bound = saved
		if err != nil {
			return "", err
		}
		return "(" + body + ")", nil
	}
	return "", fmt.Errorf("not executable: %s", fn.Name)
}

// quant: forall/exists x T :: lo <= x && x < hi ==> P   (exists: ... && P)
func (g *goSpec) quant(e *Expr, old bool) (string, error) {
	if len(e.Vars) != 1 {
		return "", fmt.Errorf("quantifier over several variables is not executable")
	}
	v := e.Vars[0]
	switch v.Type {
	case "int", "uint64", "uint32", "uint8", "int64", "uint", "byte", "uint16", "int32":
	default:
		return "", fmt.Errorf("quantifier over %s is not executable", v.Type)
	}
	body := e.Args[0]
	var guard, rest *Expr
	switch {
	case e.Op == "forall" && body.Kind == EBinary && body.Op == "==>":
		guard, rest = body.Args[0], body.Args[1]
	case e.Op == "exists" && body.Kind == EBinary && body.Op == "&&":
		guard, rest = splitExistsGuard(body, v.Name)
	}
	if guard == nil {
		return "", fmt.Errorf("quantifier without a range guard is not executable")
	}
	var conj []*Expr
	var flat func(x *Expr)
	flat = func(x *Expr) {
		if x.Kind == EBinary && x.Op == "&&" {
			flat(x.Args[0])
			flat(x.Args[1])
			return
		}
		conj = append(conj, x)
	}
	flat(guard)
	var lo, hi string
	var others []*Expr
	for _, c := range conj {
		if c.Kind == EBinary && len(c.Args) == 2 {
			l, r := c.Args[0], c.Args[1]
			isV := func(x *Expr) bool { return x.Kind == EIdent && x.Name == v.Name }
			mentions := func(x *Expr) bool { return strings.Contains(" "+x.String()+" ", v.Name) && exprMentions(x, v.Name) }
			switch {
			case c.Op == "<=" && isV(r) && !mentions(l) && lo == "":
				s, err := g.tr(l, old)
				if err != nil {
					return "", err
				}
				lo = s
				continue
			case c.Op == "<" && isV(l) && !mentions(r) && hi == "":
				s, err := g.tr(r, old)
				if err != nil {
					return "", err
				}
				hi = s
				continue
			case c.Op == "<=" && isV(l) && !mentions(r) && hi == "":
				s, err := g.tr(r, old)
				if err != nil {
					return "", err
				}
				hi = "(" + s + ") + 1"
				continue
			}
		}
		others = append(others, c)
	}
	if lo == "" || hi == "" {
		return "", fmt.Errorf("quantifier range not recognised")
	}
	saved := g.bound
	nb := map[string]string{}
	for k, b := range saved {
		nb[k] = b
	}
	nb[v.Name] = v.Name
	g.bound = nb
	defer func() { g.bound = saved }()
	cond := "true"
	for _, o := range others {
		s, err := g.tr(o, old)
		if err != nil {
			return "", err
		}
		cond += " && " + s
	}
	p, err := g.tr(rest, old)
	if err != nil {
		return "", err
	}
	loop := fmt.Sprintf("gocvN := 0; for %s := %s(%s); %s < %s(%s); %s++ { gocvN++; if gocvN > %d { panic(\"gocv: quantifier range too large to execute\") }; ",
		v.Name, v.Type, lo, v.Name, v.Type, hi, v.Name, specLoopCap)
	if e.Op == "forall" {
		return "func() bool { " + loop + "if (" + cond + ") && !(" + p + ") { return false } }; return true }()", nil
	}
	return "func() bool { " + loop + "if (" + cond + ") && (" + p + ") { return true } }; return false }()", nil
}

func exprMentions(e *Expr, name string) bool {
	if e == nil {
		return false
	}
	if e.Kind == EIdent && e.Name == name {
		return true
	}
	for _, a := range e.Args {
		if exprMentions(a, name) {
			return true
		}
	}
	return false
}

// splitExistsGuard: in  g1 && g2 && ... && P  the leading conjuncts that bound x form the guard.
func splitExistsGuard(body *Expr, name string) (*Expr, *Expr) {
	var conj []*Expr
	var flat func(x *Expr)
	flat = func(x *Expr) {
		if x.Kind == EBinary && x.Op == "&&" {
			flat(x.Args[0])
			flat(x.Args[1])
			return
		}
		conj = append(conj, x)
	}
	flat(body)
	var gs, ps []*Expr
	for _, c := range conj {
		if c.Kind == EBinary && (c.Op == "<=" || c.Op == "<") && len(ps) == 0 &&
			((c.Args[0].Kind == EIdent && c.Args[0].Name == name) || (c.Args[1].Kind == EIdent && c.Args[1].Name == name)) {
			gs = append(gs, c)
			continue
		}
		ps = append(ps, c)
	}
	if len(gs) == 0 || len(ps) == 0 {
		return nil, nil
	}
	and := func(xs []*Expr) *Expr {
		r := xs[0]
		for _, x := range xs[1:] {
			r = &Expr{Kind: EBinary, Op: "&&", Args: []*Expr{r, x}}
		}
		return r
	}
	return and(gs), and(ps)
}
