package main

import (
	"fmt"
	"math/big"
	"strings"
)

// Minimal s-expression reader for solver models.
type SExp struct {
	Atom string
	List []*SExp
}

func (s *SExp) IsAtom() bool { return s.List == nil && s.Atom != "" }

func (s *SExp) String() string {
	if s.List == nil {
		return s.Atom
	}
	var parts []string
	for _, e := range s.List {
		parts = append(parts, e.String())
	}
	return "(" + strings.Join(parts, " ") + ")"
}

func parseSExps(src string) ([]*SExp, error) {
	var out []*SExp
	i := 0
	for {
		for i < len(src) && (src[i] == ' ' || src[i] == '\n' || src[i] == '\t' || src[i] == '\r') {
			i++
		}
		if i >= len(src) {
			return out, nil
		}
		e, n, err := parseSExp(src, i)
		if err != nil {
			return out, err
		}
		out = append(out, e)
		i = n
	}
}

func parseSExp(src string, i int) (*SExp, int, error) {
	for i < len(src) && (src[i] == ' ' || src[i] == '\n' || src[i] == '\t' || src[i] == '\r') {
		i++
	}
	if i >= len(src) {
		return nil, i, fmt.Errorf("unexpected end")
	}
	if src[i] == '(' {
		i++
		e := &SExp{List: []*SExp{}}
		for {
			for i < len(src) && (src[i] == ' ' || src[i] == '\n' || src[i] == '\t' || src[i] == '\r') {
				i++
			}
			if i >= len(src) {
				return nil, i, fmt.Errorf("unterminated list")
			}
			if src[i] == ')' {
				return e, i + 1, nil
			}
			c, n, err := parseSExp(src, i)
			if err != nil {
				return nil, n, err
			}
			e.List = append(e.List, c)
			i = n
		}
	}
	if src[i] == '|' {
		j := strings.IndexByte(src[i+1:], '|')
		if j < 0 {
			return nil, i, fmt.Errorf("unterminated quoted symbol")
		}
		return &SExp{Atom: src[i : i+j+2]}, i + j + 2, nil
	}
	if src[i] == '"' {
		j := i + 1
		for j < len(src) && src[j] != '"' {
			j++
		}
		return &SExp{Atom: src[i : j+1]}, j + 1, nil
	}
	j := i
	for j < len(src) && !strings.ContainsRune(" \n\t\r()", rune(src[j])) {
		j++
	}
	return &SExp{Atom: src[i:j]}, j, nil
}

// sexpInt interprets a model value as an integer (Int or bit-vector literals).
func sexpInt(e *SExp) (*big.Int, bool) {
	if e == nil {
		return nil, false
	}
	if e.IsAtom() {
		a := e.Atom
		switch {
		case strings.HasPrefix(a, "#x"):
			v, ok := new(big.Int).SetString(a[2:], 16)
			return v, ok
		case strings.HasPrefix(a, "#b"):
			v, ok := new(big.Int).SetString(a[2:], 2)
			return v, ok
		}
		v, ok := new(big.Int).SetString(a, 10)
		return v, ok
	}
	if len(e.List) == 2 && e.List[0].Atom == "-" {
		v, ok := sexpInt(e.List[1])
		if ok {
			return new(big.Int).Neg(v), true
		}
	}
	if len(e.List) == 3 && e.List[0].Atom == "_" && strings.HasPrefix(e.List[1].Atom, "bv") {
		v, ok := new(big.Int).SetString(e.List[1].Atom[2:], 10)
		return v, ok
	}
	return nil, false
}

// parseModel turns "((t1 v1) (t2 v2))" (possibly several such blocks) into an ordered list of values.
func parseModelValues(model string) []*SExp {
	es, err := parseSExps(model)
	if err != nil {
		return nil
	}
	var vals []*SExp
	for _, blk := range es {
		for _, pair := range blk.List {
			if len(pair.List) == 2 {
				vals = append(vals, pair.List[1])
			}
		}
	}
	return vals
}
