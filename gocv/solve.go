package main

import (
	"runtime"
	"context"
	"fmt"
	"os"
	"os/exec"
	"path/filepath"
	"strings"
	"sync"
	"time"
)

type SolveResult struct {
	Status string // unsat | sat | unknown | timeout | error
	Solver string
	Secs   float64
	Model  string
	Raw    string
	All    map[string]string // solver -> status (thorough agreement check)
}

type solverSpec struct {
	name string
	cmd  func(file string, secs int) []string
	cvc5 bool
}

var solvers = []solverSpec{
	{"z3-new-5.1.0", func(f string, s int) []string { return []string{"z3-new", fmt.Sprintf("-T:%d", s), f} }, false},
	{"cvc5-1.0", func(f string, s int) []string {
		return []string{"cvc5", fmt.Sprintf("--tlimit=%d", s*1000), "--incremental", f}
	}, true},
	{"z3-4.8.12", func(f string, s int) []string { return []string{"z3", fmt.Sprintf("-T:%d", s), f} }, false},
}

var workDir string

func initWorkDir() {
	d, err := os.MkdirTemp("", "gocv-")
	if err != nil {
		panic(err)
	}
	workDir = d
}

// solverSlots bounds the number of solver processes running at once (all obligations, all
// cubes): a solver's time limit should measure solving, not waiting for a core.
var solverSlots = make(chan struct{}, maxInt(4, runtime.NumCPU()))

func maxInt(a, b int) int {
	if a > b {
		return a
	}
	return b
}

func runSolver(ctx context.Context, sp solverSpec, query string, secs int, tag string) SolveResult {
	select {
	case solverSlots <- struct{}{}:
		defer func() { <-solverSlots }()
	case <-ctx.Done():
		return SolveResult{Status: "cancelled", Solver: sp.name}
	}
	file := filepath.Join(workDir, fmt.Sprintf("%s.%s.smt2", tag, sp.name))
	if err := os.WriteFile(file, []byte(query), 0o644); err != nil {
		return SolveResult{Status: "error", Solver: sp.name, Raw: err.Error()}
	}
	defer os.Remove(file)
	args := sp.cmd(file, secs)
	cctx, cancel := context.WithTimeout(ctx, time.Duration(secs+2)*time.Second)
	defer cancel()
	start := time.Now()
	cmd := exec.CommandContext(cctx, args[0], args[1:]...)
	out, _ := cmd.CombinedOutput()
	el := time.Since(start).Seconds()
	s := string(out)
	first, rest, _ := strings.Cut(strings.TrimSpace(s), "\n")
	first = strings.TrimSpace(first)
	r := SolveResult{Solver: sp.name, Secs: el, Raw: s}
	switch {
	case first == "unsat":
		r.Status = "unsat"
	case first == "sat":
		r.Status = "sat"
		r.Model = strings.TrimSpace(rest)
	case first == "unknown":
		r.Status = "unknown"
	case strings.Contains(first, "timeout") || cctx.Err() != nil:
		r.Status = "timeout"
	default:
		if ctx.Err() != nil {
			r.Status = "cancelled"
		} else {
			r.Status = "error"
		}
	}
	return r
}

// Solve decides one obligation. Staged: z3-new alone for a short while, then all three raced.
func Solve(vc *VC, o *Obligation, secs int, thorough bool, tag string) SolveResult {
	q := vc.Query(o, false, true)
	qc := vc.Query(o, true, true)
	definite := func(r SolveResult) bool { return r.Status == "sat" || r.Status == "unsat" }
	if !thorough {
		first := 3
		if secs < first {
			first = secs
		}
		r := runSolver(context.Background(), solvers[0], q, first, tag)
		if definite(r) {
			return r
		}
	}
	// Case split on the capacity tests of append-like calls ("fits" booleans): with them fixed
	// the heap terms are ite-free and each case is decided in a fraction of a second, while
	// the solvers' own search interleaves the split with arithmetic and often does not finish.
	if r, ok := solveSplit(q, secs, tag); ok {
		return r
	}
	ctx, cancel := context.WithCancel(context.Background())
	defer cancel()
	ch := make(chan SolveResult, len(solvers))
	var wg sync.WaitGroup
	for _, sp := range solvers {
		wg.Add(1)
		go func(sp solverSpec) {
			defer wg.Done()
			qq := q
			if sp.cvc5 {
				qq = qc
			}
			ch <- runSolver(ctx, sp, qq, secs, tag)
		}(sp)
	}
	go func() { wg.Wait(); close(ch) }()
	all := map[string]string{}
	var best SolveResult
	var total float64
	for r := range ch {
		all[r.Solver] = r.Status
		if definite(r) {
			if !definite(best) {
				best = r
				if !thorough {
					cancel()
				}
			} else if best.Status != r.Status {
				best.Status = "disagree"
			}
		} else if !definite(best) && (best.Status == "" || best.Status == "error" || best.Status == "cancelled") {
			best = r
		}
		if r.Secs > total {
			total = r.Secs
		}
	}
	best.All = all
	if !definite(best) && best.Status != "disagree" {
		best.Secs = total
	}
	// A counterexample claim must be reproducible: a sat that did not come from z3-new is
	// re-checked with z3-new alone (no race, no load from the losing solvers); if z3-new
	// does not confirm it the answer is unknown. (Observed: z3 4.8.12 occasionally answers
	// sat within milliseconds on quantified goals it otherwise times out on.)
	if best.Status == "sat" && best.Solver != solvers[0].name {
		r := runSolver(context.Background(), solvers[0], q, secs, tag+"c")
		switch r.Status {
		case "sat":
			r.All = all
			return r
		case "unsat":
			best.Status = "disagree"
		default:
			best.Status = "unknown"
			best.Model = ""
		}
	}
	return best
}

// runSolverMs: z3 with a millisecond time limit (debugging of the splitter only).
func runSolverMs(ctx context.Context, sp solverSpec, query string, ms int, tag string) SolveResult {
	file := filepath.Join(workDir, fmt.Sprintf("%s.%s.smt2", tag, sp.name))
	if err := os.WriteFile(file, []byte(query), 0o644); err != nil {
		return SolveResult{Status: "error"}
	}
	defer os.Remove(file)
	out, _ := exec.CommandContext(ctx, "z3-new", fmt.Sprintf("-t:%d", ms), file).CombinedOutput()
	first, rest, _ := strings.Cut(strings.TrimSpace(string(out)), "\n")
	r := SolveResult{Solver: sp.name, Raw: string(out)}
	switch strings.TrimSpace(first) {
	case "unsat":
		r.Status = "unsat"
	case "sat":
		r.Status = "sat"
		r.Model = strings.TrimSpace(rest)
	default:
		r.Status = "timeout"
	}
	return r
}
