package main

import (
	"bufio"
	"fmt"
	"go/types"
	"os"
	"regexp"
	"strings"
)

type Clause struct {
	Label string
	E     *Expr
	Src   string
	// Defines: a definitional postcondition (`defines`): it says what a ghost function MEANS in terms
	// of this function's result; callers assume it like any postcondition, the function's own
	// verification does not try to prove it (there is nothing to prove it from) and lists it as an
	// assumption. The other clauses of the contract are checked as usual.
	Defines bool
}

type LoopSpec struct {
	Key       string
	Invs      []Clause
	Decreases *Expr
	Uses      []*Expr // lemma instances assumed at the loop head: lemmaName(arg, ...)
}

// AppendSpec: "appends p n" - the first result is what append(p, x1..xn) returns for some
// n elements: p extended in place when it fits the capacity (only the n new cells change),
// otherwise a fresh array holding a copy of p's elements followed by n new ones (and the
// spare capacity of the old array may have been overwritten). Callers get this as an exact,
// quantifier-free heap transformer; the function itself is checked against it.
type AppendSpec struct {
	Param string
	N     *Expr
	When  *Expr // optional: the append happened only if this holds in the post-state (e.g. result1 == nil)
	Src   string
	Line  int
	NSrc, WhenSrc string
}

// CallSiteSpec is an assertion attached to calls of Callee inside the function
// under contract: evaluated with the callee's parameter names bound to the
// actual arguments (plus the enclosing function's parameters). Ord 0 = every call.
type CallSiteSpec struct {
	Callee string
	Ord    int
	Clause Clause
}

// RecvSpec: an assumption about every value received from a channel parameter
// (what the producer sends is outside the function): recvfrom ch: <expr over "value">
type RecvSpec struct {
	Chan   string
	Clause Clause
}

// GhostSet: ghost assignment performed at function exit: sets <var> = <expr>
type GhostSet struct {
	Var string
	E   *Expr
	Src string
}

type FuncContract struct {
	Sets        []GhostSet
	Recvs       []RecvSpec
	CallSites   []CallSiteSpec
	File        string
	Line        int
	PkgPath     string // package the contract file lives in
	Kind        string // func | lemma | extern
	Key         string // "q", "(*BitArray).Rsh", for extern: "encoding/binary.Uvarint"
	Props       []string
	Mode        ArithMode
	Requires    []Clause
	Where       []Clause // ghost bindings assumed at entry, not checked at call sites
	Ensures     []Clause
	Modifies    []*Expr
	Assigns     []string // ghost variables the function may change
	ModifiesAll bool
	ModifiesTypes []string // "modifies allof T": any cell holding a value of Go type T may change
	ModifiesMaps bool
	Loops       map[string]*LoopSpec
	LoopOrder   []string
	Inline      bool
	CoreTypes   bool // treat type parameters constrained to ~T0 as T0
	Appends     *AppendSpec
	SplitReturns bool // exit obligations per return site
	NoSafeKinds map[string]bool
	PureCallbacks map[string]bool // callback parameters assumed to have no effect on the heap
	Bounded map[string]Clause // ensures label -> bound under which it is checked (a bounded stand-in, not a proof)
	IsIface     bool // contract on an interface method (no body to verify)
	Reveals     map[string]bool // hidden pure functions whose definition this function's proof may use
	OnlyProp    map[string]string // clause label -> the one property it belongs to
	Logged      bool   // maintain call-log ghost variables calls_<Name>, arg_<Name>_<param>
	LogName     string
	Trusted     bool
	NoSafe      bool
	EffectFree  bool
	OwnPackage  bool // the contract is applied at call sites of its own package only; other packages keep their own declaration
	PanicFree   bool // the function is claimed never to panic: any refuted run-time-failure obligation in it is reported, whatever the shape of its obligation set
	DetachedGo      bool // goroutines the function starts are assumed to communicate with it by signalling only (channels, cancel functions): no taint at `go`, the heap is still havoced there
	AssumeCalleePre bool // thin contract: the preconditions of every contracted callee are assumed, not checked, inside this function (listed as an assumption)
	AssumePre   bool // in a local declaration of a function under contract elsewhere: that contract's preconditions are assumed, not checked, at calls from this package
	LemmaParams []QVar
	Uses        []string // lemma: functions whose contracts are instantiated (auto-detected otherwise)
	Errors      []string
}

type PureFunc struct {
	Hidden  bool // uninterpreted outside contracts that `reveal` it (value parameters only)
	Name    string
	Params  []QVar
	Result  string
	Body    *Expr
	PkgPath string
}

// GhostFunc is an uninterpreted spec function: //@ ghost func name(a T, b U) R
type GhostFunc struct {
	Exec    *Expr // optional executable definition, used by the replay only
	Name    string
	Params  []QVar
	Result  string
	PkgPath string
}

type GhostVar struct {
	Name    string
	Type    string
	PkgPath string
	Ty      types.Type // resolved type (call-log variables)
	Math    bool       // mathematical integer
}

type ContractFile struct {
	Globals   []Clause // assumed facts about package-level variables (hold after initialisation, never change)
	GhostVars []*GhostVar
	Ghosts  []*GhostFunc
	PkgPath string
	Path    string
	Funcs   []*FuncContract
	Opaque  []string
	Pures   []*PureFunc
	Errors  []string
}

var clauseKeywords = map[string]bool{
	"func": true, "lemma": true, "extern": true, "opaque": true, "pure": true, "props": true, "arith": true,
	"requires": true, "ensures": true, "modifies": true, "loop": true, "inline": true, "trusted": true,
	"nosafe": true, "effectfree": true, "uses": true, "ghost": true, "assigns": true, "logged": true, "callsite": true, "where": true, "global": true, "recvfrom": true, "sets": true, "coretypes": true, "appends": true, "splitreturns": true, "purecallback": true, "bounded": true, "reveal": true, "onlyprop": true, "assumepre": true, "assumecalleepre": true, "defines": true, "detachedgo": true, "panicfree": true, "ownpackage": true,
}

var labelRe = regexp.MustCompile(`^([A-Za-z_][A-Za-z0-9_]*)\s*:\s*([^:=].*)$`)

// ParseContractFile reads the //@ lines of a zz_contracts_verif.go file.
func ParseContractFile(path, pkgPath string) (*ContractFile, error) {
	f, err := os.Open(path)
	if err != nil {
		return nil, err
	}
	defer f.Close()
	cf := &ContractFile{PkgPath: pkgPath, Path: path}
	type rawClause struct {
		line int
		text string
	}
	var clauses []rawClause
	sc := bufio.NewScanner(f)
	sc.Buffer(make([]byte, 1<<20), 1<<20)
	ln := 0
	for sc.Scan() {
		ln++
		line := strings.TrimSpace(sc.Text())
		if !strings.HasPrefix(line, "//@") {
			continue
		}
		body := strings.TrimSpace(line[3:])
		// strip trailing comment
		if i := strings.Index(body, " // "); i >= 0 {
			body = strings.TrimSpace(body[:i])
		}
		if body == "" {
			continue
		}
		first := body
		if i := strings.IndexAny(body, " \t("); i >= 0 {
			first = body[:i]
		}
		if clauseKeywords[first] {
			clauses = append(clauses, rawClause{ln, body})
		} else if len(clauses) > 0 {
			clauses[len(clauses)-1].text += " " + body
		} else {
			cf.Errors = append(cf.Errors, fmt.Sprintf("%s:%d: continuation without clause", path, ln))
		}
	}
	var cur *FuncContract
	addErr := func(line int, format string, a ...any) {
		msg := fmt.Sprintf("%s:%d: %s", path, line, fmt.Sprintf(format, a...))
		if cur != nil {
			cur.Errors = append(cur.Errors, msg)
		} else {
			cf.Errors = append(cf.Errors, msg)
		}
	}
	parseClause := func(line int, text string, defLabel string) (Clause, bool) {
		label := defLabel
		if m := labelRe.FindStringSubmatch(text); m != nil && !clauseKeywords[m[1]] && m[1] != "forall" && m[1] != "exists" {
			label = m[1]
			text = m[2]
		}
		e, err := ParseSpec(text)
		if err != nil {
			addErr(line, "%v", err)
			return Clause{}, false
		}
		return Clause{Label: label, E: e, Src: text}, true
	}
	for _, rc := range clauses {
		kw, rest, _ := strings.Cut(rc.text, " ")
		rest = strings.TrimSpace(rest)
		switch kw {
		case "func", "extern":
			if kw == "extern" {
				rest = strings.TrimSpace(strings.TrimPrefix(rest, "func"))
			}
			cur = &FuncContract{File: path, Line: rc.line, PkgPath: pkgPath, Kind: kw, Key: rest, Loops: map[string]*LoopSpec{}}
			cf.Funcs = append(cf.Funcs, cur)
		case "lemma":
			name, params, ok := strings.Cut(rest, "(")
			cur = &FuncContract{File: path, Line: rc.line, PkgPath: pkgPath, Kind: "lemma", Key: strings.TrimSpace(name), Loops: map[string]*LoopSpec{}}
			cf.Funcs = append(cf.Funcs, cur)
			if ok {
				params = strings.TrimSuffix(strings.TrimSpace(params), ")")
				for _, p := range strings.Split(params, ",") {
					p = strings.TrimSpace(p)
					if p == "" {
						continue
					}
					n, t, ok := strings.Cut(p, " ")
					if !ok {
						addErr(rc.line, "bad lemma parameter %q", p)
						continue
					}
					cur.LemmaParams = append(cur.LemmaParams, QVar{n, strings.TrimSpace(t)})
				}
			}
		case "ghost":
			if strings.HasPrefix(rest, "var ") {
				f := strings.Fields(rest)
				if len(f) != 3 {
					addErr(rc.line, "ghost var <name> <type>")
					continue
				}
				cf.GhostVars = append(cf.GhostVars, &GhostVar{Name: f[1], Type: f[2], PkgPath: pkgPath})
				cur = nil
				continue
			}
			rest = strings.TrimSpace(strings.TrimPrefix(rest, "func"))
			// optional "replay <expr>": how the replay computes the function on concrete values (the
			// proofs keep it uninterpreted)
			rest, execSrc, hasExec := strings.Cut(rest, " replay ")
			name, ps, _ := strings.Cut(rest, "(")
			ps, res, _ := strings.Cut(ps, ")")
			gf := &GhostFunc{Name: strings.TrimSpace(name), Result: strings.TrimSpace(res), PkgPath: pkgPath}
			if hasExec {
				e, err := ParseSpec(strings.TrimSpace(execSrc))
				if err != nil {
					addErr(rc.line, "%v", err)
				} else {
					gf.Exec = e
				}
			}
			for _, p := range strings.Split(ps, ",") {
				p = strings.TrimSpace(p)
				if p == "" {
					continue
				}
				n, t, _ := strings.Cut(p, " ")
				gf.Params = append(gf.Params, QVar{n, strings.TrimSpace(t)})
			}
			cf.Ghosts = append(cf.Ghosts, gf)
			cur = nil
		case "global":
			cur = nil
			if c, ok := parseClause(rc.line, rest, fmt.Sprintf("g%d", len(cf.Globals)+1)); ok {
				cf.Globals = append(cf.Globals, c)
			}
		case "opaque":
			cf.Opaque = append(cf.Opaque, strings.TrimSpace(strings.TrimPrefix(rest, "type")))
		case "pure":
			// pure func name(a T, b T) R = expr
			hidden := false
			if strings.HasPrefix(rest, "hidden ") {
				// pure hidden func: an uninterpreted function of its arguments wherever it is
				// not revealed - callers reason about it by congruence only
				hidden = true
				rest = strings.TrimSpace(strings.TrimPrefix(rest, "hidden"))
			}
			rest = strings.TrimSpace(strings.TrimPrefix(rest, "func"))
			head, body, ok := strings.Cut(rest, "=")
			if !ok {
				addErr(rc.line, "pure func needs '= expr'")
				continue
			}
			// careful: '=' may be part of '==' in body only; head has none
			name, ps, _ := strings.Cut(head, "(")
			ps, res, _ := strings.Cut(ps, ")")
			pf := &PureFunc{Name: strings.TrimSpace(name), Result: strings.TrimSpace(res), PkgPath: pkgPath, Hidden: hidden}
			for _, p := range strings.Split(ps, ",") {
				p = strings.TrimSpace(p)
				if p == "" {
					continue
				}
				n, t, _ := strings.Cut(p, " ")
				t = strings.TrimSpace(t)
				if hidden && (strings.HasPrefix(t, "*") || strings.HasPrefix(t, "[") || strings.HasPrefix(t, "map")) {
					addErr(rc.line, "pure hidden func %s: parameter %s must be a value (a hidden function may not read the heap)", name, n)
				}
				pf.Params = append(pf.Params, QVar{n, t})
			}
			e, err := ParseSpec(strings.TrimSpace(body))
			if err != nil {
				addErr(rc.line, "%v", err)
				continue
			}
			pf.Body = e
			cf.Pures = append(cf.Pures, pf)
		default:
			if cur == nil {
				addErr(rc.line, "clause %q outside a func block", kw)
				continue
			}
			switch kw {
			case "props":
				cur.Props = append(cur.Props, strings.FieldsFunc(rest, func(r rune) bool { return r == ',' || r == ' ' })...)
			case "arith":
				switch rest {
				case "int":
					cur.Mode = ModeInt
				case "bv":
					cur.Mode = ModeBV
				default:
					addErr(rc.line, "unknown arith mode %q", rest)
				}
			case "requires":
				if c, ok := parseClause(rc.line, rest, fmt.Sprintf("r%d", len(cur.Requires)+1)); ok {
					cur.Requires = append(cur.Requires, c)
				}
			case "ensures":
				if c, ok := parseClause(rc.line, rest, fmt.Sprintf("e%d", len(cur.Ensures)+1)); ok {
					cur.Ensures = append(cur.Ensures, c)
				}
			case "defines":
				if c, ok := parseClause(rc.line, rest, fmt.Sprintf("d%d", len(cur.Ensures)+1)); ok {
					c.Defines = true
					cur.Ensures = append(cur.Ensures, c)
				}
			case "modifies":
				if rest == "*" {
					cur.ModifiesAll = true
					break
				}
				if rest == "maps" {
					cur.ModifiesMaps = true
					break
				}
				if strings.HasPrefix(rest, "allof ") {
					cur.ModifiesTypes = append(cur.ModifiesTypes, strings.TrimSpace(rest[6:]))
					break
				}
				for _, part := range splitTopLevel(rest, ',') {
					e, err := ParseSpec(part)
					if err != nil {
						addErr(rc.line, "%v", err)
						continue
					}
					cur.Modifies = append(cur.Modifies, e)
				}
			case "loop":
				key, body, ok := strings.Cut(rest, ":")
				if !ok {
					addErr(rc.line, "loop clause needs 'loop <key>: invariant ...'")
					continue
				}
				key = strings.TrimSpace(key)
				body = strings.TrimSpace(body)
				ls := cur.Loops[key]
				if ls == nil {
					ls = &LoopSpec{Key: key}
					cur.Loops[key] = ls
					cur.LoopOrder = append(cur.LoopOrder, key)
				}
				k2, b2, _ := strings.Cut(body, " ")
				switch k2 {
				case "invariant":
					if c, ok := parseClause(rc.line, strings.TrimSpace(b2), fmt.Sprintf("i%d", len(ls.Invs)+1)); ok {
						ls.Invs = append(ls.Invs, c)
					}
				case "decreases":
					e, err := ParseSpec(strings.TrimSpace(b2))
					if err != nil {
						addErr(rc.line, "%v", err)
					} else {
						ls.Decreases = e
					}
				case "uses":
					e, err := ParseSpec(strings.TrimSpace(b2))
					if err != nil || e.Kind != ECall {
						addErr(rc.line, "loop ... uses <lemma>(args): %v", err)
					} else {
						ls.Uses = append(ls.Uses, e)
					}
				default:
					addErr(rc.line, "unknown loop clause %q", k2)
				}
			case "onlyprop":
				// onlyprop <label> <property>: the clause belongs to that property only (a function
				// under contract for several properties may carry a clause - e.g. a known finding -
				// that is about one of them)
				f := strings.Fields(rest)
				if len(f) != 2 {
					addErr(rc.line, "onlyprop <label> <property>")
					continue
				}
				if cur.OnlyProp == nil {
					cur.OnlyProp = map[string]string{}
				}
				cur.OnlyProp[f[0]] = f[1]
			case "reveal":
				if cur.Reveals == nil {
					cur.Reveals = map[string]bool{}
				}
				for _, n := range strings.FieldsFunc(rest, func(r rune) bool { return r == ',' || r == ' ' }) {
					cur.Reveals[n] = true
				}
			case "assigns":
				cur.Assigns = append(cur.Assigns, strings.FieldsFunc(rest, func(r rune) bool { return r == ',' || r == ' ' })...)
			case "callsite":
				// callsite Name@N: label: expr     (N may be *)
				head, body, ok := strings.Cut(rest, ":")
				if !ok {
					addErr(rc.line, "callsite <callee>@<n|*>: <expr>")
					continue
				}
				callee, ordS, _ := strings.Cut(strings.TrimSpace(head), "@")
				ord := 0
				if ordS != "" && ordS != "*" {
					fmt.Sscanf(ordS, "%d", &ord)
				}
				if c, ok := parseClause(rc.line, strings.TrimSpace(body), fmt.Sprintf("c%d", len(cur.CallSites)+1)); ok {
					cur.CallSites = append(cur.CallSites, CallSiteSpec{Callee: strings.TrimSpace(callee), Ord: ord, Clause: c})
				}
			case "sets":
				v, body, ok := strings.Cut(rest, "=")
				if !ok {
					addErr(rc.line, "sets <ghost var> = <expr>")
					continue
				}
				e, err := ParseSpec(strings.TrimSpace(body))
				if err != nil {
					addErr(rc.line, "%v", err)
					continue
				}
				cur.Sets = append(cur.Sets, GhostSet{Var: strings.TrimSpace(v), E: e, Src: rest})
			case "recvfrom":
				ch, body, ok := strings.Cut(rest, ":")
				if !ok {
					addErr(rc.line, "recvfrom <chan>: <expr>")
					continue
				}
				if c, ok := parseClause(rc.line, strings.TrimSpace(body), fmt.Sprintf("rv%d", len(cur.Recvs)+1)); ok {
					cur.Recvs = append(cur.Recvs, RecvSpec{Chan: strings.TrimSpace(ch), Clause: c})
				}
			case "where":
				if c, ok := parseClause(rc.line, rest, fmt.Sprintf("w%d", len(cur.Where)+1)); ok {
					cur.Where = append(cur.Where, c)
				}
			case "logged":
				cur.Logged = true
				cur.LogName = strings.TrimSpace(strings.TrimPrefix(rest, "as"))
			case "coretypes":
				cur.CoreTypes = true
			case "splitreturns":
				cur.SplitReturns = true
			case "bounded":
				// bounded <ensures label>: <bound>   - the clause is checked only for inputs within the bound
				lab, body, ok := strings.Cut(rest, ":")
				if !ok {
					addErr(rc.line, "bounded <ensures label>: <bound expression>")
					continue
				}
				e, err := ParseSpec(strings.TrimSpace(body))
				if err != nil {
					addErr(rc.line, "%v", err)
					continue
				}
				if cur.Bounded == nil {
					cur.Bounded = map[string]Clause{}
				}
				cur.Bounded[strings.TrimSpace(lab)] = Clause{Label: strings.TrimSpace(lab), E: e, Src: strings.TrimSpace(body)}
			case "purecallback":
				if cur.PureCallbacks == nil {
					cur.PureCallbacks = map[string]bool{}
				}
				for _, n := range strings.FieldsFunc(rest, func(r rune) bool { return r == ',' || r == ' ' }) {
					cur.PureCallbacks[n] = true
				}
			case "appends":
				pn, body, ok := strings.Cut(rest, " ")
				if !ok {
					addErr(rc.line, "appends <slice parameter> <count>")
					continue
				}
				body, when, hasWhen := strings.Cut(body, " when ")
				e, err := ParseSpec(strings.TrimSpace(body))
				if err != nil {
					addErr(rc.line, "%v", err)
					continue
				}
				cur.Appends = &AppendSpec{Param: strings.TrimSpace(pn), N: e, Src: rest, Line: rc.line, NSrc: strings.TrimSpace(body), WhenSrc: "true"}
				if hasWhen {
					cur.Appends.WhenSrc = strings.TrimSpace(when)
					w, err := ParseSpec(strings.TrimSpace(when))
					if err != nil {
						addErr(rc.line, "%v", err)
						continue
					}
					cur.Appends.When = w
				}
			case "inline":
				cur.Inline = true
			case "trusted":
				cur.Trusted = true
			case "nosafe":
				// nosafe            - no safety obligations at all
				// nosafe k1 k2 ...  - none of the listed kinds (nil, index, slice, makeslice, shift, div, ...)
				if strings.TrimSpace(rest) == "" {
					cur.NoSafe = true
				} else {
					if cur.NoSafeKinds == nil {
						cur.NoSafeKinds = map[string]bool{}
					}
					for _, k := range strings.FieldsFunc(rest, func(r rune) bool { return r == ',' || r == ' ' }) {
						cur.NoSafeKinds[k] = true
					}
				}
			case "effectfree":
				cur.EffectFree = true
			case "assumepre":
				cur.AssumePre = true
			case "assumecalleepre":
				cur.AssumeCalleePre = true
			case "detachedgo":
				cur.DetachedGo = true
			case "panicfree":
				cur.PanicFree = true
			case "ownpackage":
				cur.OwnPackage = true
			case "uses":
				cur.Uses = append(cur.Uses, strings.FieldsFunc(rest, func(r rune) bool { return r == ',' || r == ' ' })...)
			}
		}
	}
	return cf, nil
}

func splitTopLevel(s string, sep rune) []string {
	var out []string
	depth := 0
	start := 0
	for i, c := range s {
		switch c {
		case '(', '[':
			depth++
		case ')', ']':
			depth--
		default:
			if c == sep && depth == 0 {
				out = append(out, strings.TrimSpace(s[start:i]))
				start = i + 1
			}
		}
	}
	out = append(out, strings.TrimSpace(s[start:]))
	return out
}
