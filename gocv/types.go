package main

import (
	"fmt"
	"go/types"
	"sort"
	"strings"
)

type ArithMode int

const (
	ModeInt ArithMode = iota
	ModeBV
)

// TypeTable maps Go types to SMT sorts and memory layouts. One per function VC
// (mode dependent), but struct datatypes are named deterministically.
type TypeTable struct {
	mode     ArithMode
	structs  map[string]*types.Struct // sort name -> struct
	order    []string
	opaque   map[string]bool // type strings treated as opaque sorts
	opaqueS  map[string]bool // opaque sorts used
	tids     map[string]int
	byRef    map[int]bool // type ids whose values sit in an interface as a pointer (compared by identity)
	typeArgs map[string]Sort // type parameter -> sort
}

func NewTypeTable(mode ArithMode, opaque map[string]bool) *TypeTable {
	return &TypeTable{mode: mode, structs: map[string]*types.Struct{}, opaque: opaque, opaqueS: map[string]bool{}, tids: map[string]int{}, byRef: map[int]bool{}, typeArgs: map[string]Sort{}}
}

func intInfo(b *types.Basic) (w int, signed bool, ok bool) {
	switch b.Kind() {
	case types.Int8:
		return 8, true, true
	case types.Int16:
		return 16, true, true
	case types.Int32:
		return 32, true, true
	case types.Int64, types.Int:
		return 64, true, true
	case types.Uint8:
		return 8, false, true
	case types.Uint16:
		return 16, false, true
	case types.Uint32:
		return 32, false, true
	case types.Uint64, types.Uint, types.Uintptr:
		return 64, false, true
	case types.UntypedInt, types.UntypedRune:
		return 64, true, true
	}
	return 0, false, false
}

func isIntType(t types.Type) (int, bool, bool) {
	if b, ok := U(t).(*types.Basic); ok {
		return intInfo(b)
	}
	return 0, false, false
}

// stripTypeArgs removes instantiation brackets "Name[...]" (not array / map / slice
// brackets), so that all instantiations of a generic type share one runtime tag.
func stripTypeArgs(s string) string {
	var out []byte
	depth := 0
	for i := 0; i < len(s); i++ {
		c := s[i]
		if depth > 0 {
			switch c {
			case '[':
				depth++
			case ']':
				depth--
			}
			continue
		}
		if c == '[' && i > 0 && isIdentByte(s[i-1]) && !(i >= 3 && s[i-3:i] == "map") {
			depth = 1
			continue
		}
		out = append(out, c)
	}
	return string(out)
}

func isIdentByte(c byte) bool {
	return c == '_' || (c >= 'a' && c <= 'z') || (c >= 'A' && c <= 'Z') || (c >= '0' && c <= '9')
}

// coreOf: the single core type of a type parameter whose constraint is (or embeds) ~T0, else nil.
// useCoreTypes is set per contract (clause `coretypes`): by default type parameters are abstract
// value sorts, which keeps equality and map keys exact; functions that index into a value whose
// type parameter is constrained to ~[N]T opt into the representation view.
var useCoreTypes bool

func coreOf(t types.Type) types.Type {
	if !useCoreTypes {
		return nil
	}
	tp, ok := types.Unalias(t).(*types.TypeParam)
	if !ok {
		return nil
	}
	var find func(it *types.Interface, depth int) types.Type
	find = func(it *types.Interface, depth int) types.Type {
		if depth > 4 {
			return nil
		}
		for i := 0; i < it.NumEmbeddeds(); i++ {
			switch e := types.Unalias(it.EmbeddedType(i)).(type) {
			case *types.Union:
				if e.Len() == 1 {
					return e.Term(0).Type()
				}
			case *types.Named:
				if in, ok := e.Underlying().(*types.Interface); ok {
					if c := find(in, depth+1); c != nil {
						return c
					}
				}
			case *types.Interface:
				if c := find(e, depth+1); c != nil {
					return c
				}
			}
		}
		return nil
	}
	it, ok := tp.Constraint().Underlying().(*types.Interface)
	if !ok {
		return nil
	}
	return find(it, 0)
}

// U is Underlying(), except that a type parameter with a core type (constraint ~T0) is its
// core type: values of such a parameter have T0's representation in every instantiation.
func U(t types.Type) types.Type {
	if c := coreOf(t); c != nil {
		return c.Underlying()
	}
	return t.Underlying()
}

// isAbstractTP: a type parameter without a core type (an opaque value sort).
func isAbstractTP(t types.Type) bool {
	_, ok := types.Unalias(t).(*types.TypeParam)
	return ok && coreOf(t) == nil
}

func typeKey(t types.Type) string {
	return types.TypeString(types.Unalias(t), func(p *types.Package) string { return p.Path() })
}

// TID: small positive integer per type, for interface tags and dyn().
func (tt *TypeTable) TID(t types.Type) int {
	k := stripTypeArgs(typeKey(t))
	if id, ok := tt.tids[k]; ok {
		return id
	}
	id := len(tt.tids) + 1
	tt.tids[k] = id
	switch U(t).(type) {
	case *types.Pointer, *types.Map, *types.Chan, *types.Signature:
		tt.byRef[id] = true
	}
	return id
}

// opaqueLike: `opaque type A like B` - values of A are modelled by B's opaque sort (two named types
// of identical underlying type that the code converts between by pointer conversion, e.g.
// felt.SierraClassHash and felt.Felt: one heap, one sort).
var opaqueLike = map[string]string{}

func (tt *TypeTable) isOpaque(t types.Type) (Sort, bool) {
	k := typeKey(t)
	if b, ok := opaqueLike[k]; ok && tt.opaque[b] {
		k = b
	}
	if tt.opaque[k] {
		s := Sort("O!" + sanitize(k))
		tt.opaqueS[string(s)] = true
		return s, true
	}
	return "", false
}

// SortOf returns the SMT sort for values of Go type t.
func (tt *TypeTable) SortOf(t types.Type) (Sort, error) {
	t = types.Unalias(t)
	if s, ok := tt.isOpaque(t); ok {
		return s, nil
	}
	if tp, ok := types.Unalias(t).(*types.TypeParam); ok && coreOf(t) == nil {
		s := Sort("TP!" + sanitize(tp.Obj().Name()))
		tt.opaqueS[string(s)] = true
		return s, nil
	}
	switch u := U(t).(type) {
	case *types.Basic:
		if u.Kind() == types.Bool || u.Kind() == types.UntypedBool {
			return SBool, nil
		}
		if w, _, ok := intInfo(u); ok {
			if tt.mode == ModeBV {
				return SBV(w), nil
			}
			return SInt, nil
		}
		if u.Kind() == types.String || u.Kind() == types.UntypedString {
			return SStr, nil
		}
		if u.Kind() == types.UnsafePointer {
			return SRef, nil
		}
		if u.Kind() == types.UntypedNil {
			return SRef, nil
		}
		return "", fmt.Errorf("unsupported basic type %s", t)
	case *types.Pointer, *types.Map, *types.Chan:
		return SRef, nil
	case *types.Slice:
		return SSlice, nil
	case *types.Interface:
		return SIface, nil
	case *types.Signature:
		return SFunc, nil
	case *types.Struct:
		name := "S!" + sanitize(typeKey(t))
		if _, isNamed := t.(*types.Named); !isNamed {
			if _, isAlias := t.(*types.Alias); !isAlias {
				name = "S!anon" + sanitize(typeKey(t))
			}
		}
		if len(name) > 120 {
			name = name[:100] + fmt.Sprintf("_h%x", hashString(name))
		}
		if _, ok := tt.structs[name]; !ok {
			tt.structs[name] = u
			// make sure field sorts are registered first
			for i := 0; i < u.NumFields(); i++ {
				if _, err := tt.SortOf(u.Field(i).Type()); err != nil {
					return "", err
				}
			}
			tt.order = append(tt.order, name)
		}
		return Sort(name), nil
	case *types.Array:
		es, err := tt.SortOf(u.Elem())
		if err != nil {
			return "", err
		}
		return SArray(SInt, es), nil
	case *types.Tuple:
		return "", fmt.Errorf("tuple has no sort")
	}
	return "", fmt.Errorf("unsupported type %s", t)
}

func hashString(s string) uint32 {
	var h uint32 = 2166136261
	for i := 0; i < len(s); i++ {
		h ^= uint32(s[i])
		h *= 16777619
	}
	return h
}

func structFieldAccessor(sortName Sort, i int) string {
	return fmt.Sprintf("%s!f%d", sortName, i)
}

// Decls emits datatype declarations for struct sorts and opaque sorts.
func (tt *TypeTable) Decls() string {
	var sb strings.Builder
	var ops []string
	for s := range tt.opaqueS {
		ops = append(ops, s)
	}
	sort.Strings(ops)
	for _, s := range ops {
		fmt.Fprintf(&sb, "(declare-sort %s 0)\n", s)
	}
	for _, name := range tt.order {
		st := tt.structs[name]
		fmt.Fprintf(&sb, "(declare-datatypes ((%s 0)) (((mk!%s", name, name)
		for i := 0; i < st.NumFields(); i++ {
			fs, _ := tt.SortOf(st.Field(i).Type())
			fmt.Fprintf(&sb, " (%s %s)", structFieldAccessor(Sort(name), i), fs)
		}
		if st.NumFields() == 0 {
			// SMT datatypes need no fields is OK
		}
		sb.WriteString("))))\n")
	}
	// Interface equality: values of pointer-like dynamic types compare by identity, all others
	// by content. boxedtag says which is which for the types this function mentions; the tag of
	// any other dynamic type is left open.
	sb.WriteString("(declare-fun boxedtag (Int) Bool)\n(declare-fun ifacevaleq (Iface Iface) Bool)\n(assert (not (boxedtag 0)))\n")
	ids := make([]int, 0, len(tt.tids))
	for _, id := range tt.tids {
		ids = append(ids, id)
	}
	sort.Ints(ids)
	for _, id := range ids {
		if tt.byRef[id] {
			fmt.Fprintf(&sb, "(assert (not (boxedtag %d)))\n", id)
		} else {
			fmt.Fprintf(&sb, "(assert (boxedtag %d))\n", id)
		}
	}
	return sb.String()
}

// isAggregate reports whether t is laid out over several slots.
func (tt *TypeTable) isAggregate(t types.Type) bool {
	if _, ok := tt.isOpaque(t); ok {
		return false
	}
	if isAbstractTP(t) {
		return false
	}
	switch U(t).(type) {
	case *types.Struct, *types.Array:
		return true
	}
	return false
}

// Slots is the number of memory slots a value of type t occupies. Aggregates
// have a phantom header slot at offset 0, so the address of an aggregate differs
// from that of its first element.
func (tt *TypeTable) Slots(t types.Type) int64 {
	if _, ok := tt.isOpaque(t); ok {
		return 1
	}
	if isAbstractTP(t) {
		return 1
	}
	switch u := U(t).(type) {
	case *types.Struct:
		n := int64(1)
		for i := 0; i < u.NumFields(); i++ {
			n += tt.Slots(u.Field(i).Type())
		}
		return n
	case *types.Array:
		return 1 + u.Len()*tt.Slots(u.Elem())
	}
	return 1
}

func (tt *TypeTable) FieldOffset(st *types.Struct, idx int) int64 {
	off := int64(1)
	for i := 0; i < idx; i++ {
		off += tt.Slots(st.Field(i).Type())
	}
	return off
}

// isAggregateTooLarge: aggregates that cannot be loaded/stored by value in one go.
func (tt *TypeTable) isAggregateTooLarge(t types.Type) bool {
	if a, ok := U(t).(*types.Array); ok && a.Len() > maxUnroll {
		return true
	}
	if st, ok := U(t).(*types.Struct); ok {
		for i := 0; i < st.NumFields(); i++ {
			if tt.isAggregateTooLarge(st.Field(i).Type()) {
				return true
			}
		}
	}
	return false
}
