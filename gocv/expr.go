package main

import (
	"fmt"
	"math/big"
	"strings"
	"unicode"
)

// Spec expression AST and Pratt-style parser.

type EKind int

const (
	EIdent EKind = iota
	EInt
	EBool
	ENil
	EUnary
	EBinary
	ECall
	EIndex
	ESlice
	EField
	EQuant
	EStr
)

type QVar struct {
	Name string
	Type string
}

type Expr struct {
	Kind EKind
	Op   string   // operator, or quantifier kind, or field name
	Name string   // ident
	Val  *big.Int // int literal
	B    bool
	Args []*Expr
	Vars []QVar
	Src  string
}

func (e *Expr) String() string {
	switch e.Kind {
	case EIdent:
		return e.Name
	case EInt:
		return e.Val.String()
	case EBool:
		return fmt.Sprint(e.B)
	case ENil:
		return "nil"
	case EStr:
		return fmt.Sprintf("%q", e.Name)
	case EUnary:
		return e.Op + e.Args[0].String()
	case EBinary:
		return "(" + e.Args[0].String() + " " + e.Op + " " + e.Args[1].String() + ")"
	case ECall:
		var as []string
		for _, a := range e.Args[1:] {
			as = append(as, a.String())
		}
		return e.Args[0].String() + "(" + strings.Join(as, ", ") + ")"
	case EIndex:
		return e.Args[0].String() + "[" + e.Args[1].String() + "]"
	case ESlice:
		return e.Args[0].String() + "[..]"
	case EField:
		return e.Args[0].String() + "." + e.Op
	case EQuant:
		var vs []string
		for _, v := range e.Vars {
			vs = append(vs, v.Name+" "+v.Type)
		}
		return "(" + e.Op + " " + strings.Join(vs, ", ") + " :: " + e.Args[0].String() + ")"
	}
	return "?"
}

type stok struct {
	kind string // ident, int, op, str, eof
	text string
}

func lexSpec(s string) ([]stok, error) {
	var toks []stok
	i := 0
	ops := []string{"<==>", "==>", "::", "&&", "||", "==", "!=", "<=", ">=", "<<", ">>", "&^", "..",
		"+", "-", "*", "/", "%", "<", ">", "!", "(", ")", "[", "]", ".", ",", ":", "&", "|", "^", "?"}
	for i < len(s) {
		c := s[i]
		if c == ' ' || c == '\t' {
			i++
			continue
		}
		if c == '/' && i+1 < len(s) && s[i+1] == '/' {
			break // trailing comment
		}
		if c == '"' {
			j := i + 1
			for j < len(s) && s[j] != '"' {
				j++
			}
			if j >= len(s) {
				return nil, fmt.Errorf("unterminated string")
			}
			toks = append(toks, stok{"str", s[i+1 : j]})
			i = j + 1
			continue
		}
		if unicode.IsLetter(rune(c)) || c == '_' || c == '$' {
			j := i
			for j < len(s) && (unicode.IsLetter(rune(s[j])) || unicode.IsDigit(rune(s[j])) || s[j] == '_' || s[j] == '$') {
				j++
			}
			toks = append(toks, stok{"ident", s[i:j]})
			i = j
			continue
		}
		if unicode.IsDigit(rune(c)) {
			j := i
			for j < len(s) && (unicode.IsDigit(rune(s[j])) || unicode.IsLetter(rune(s[j])) || s[j] == '_') {
				j++
			}
			toks = append(toks, stok{"int", s[i:j]})
			i = j
			continue
		}
		matched := false
		for _, op := range ops {
			if strings.HasPrefix(s[i:], op) {
				toks = append(toks, stok{"op", op})
				i += len(op)
				matched = true
				break
			}
		}
		if !matched {
			return nil, fmt.Errorf("unexpected character %q in %q", c, s)
		}
	}
	toks = append(toks, stok{"eof", ""})
	return toks, nil
}

type specParser struct {
	toks []stok
	pos  int
	src  string
}

func ParseSpec(s string) (*Expr, error) {
	toks, err := lexSpec(s)
	if err != nil {
		return nil, err
	}
	p := &specParser{toks: toks, src: s}
	e, err := p.expr()
	if err != nil {
		return nil, fmt.Errorf("%v in %q", err, s)
	}
	if p.peek().kind != "eof" {
		return nil, fmt.Errorf("trailing tokens at %q in %q", p.peek().text, s)
	}
	e.Src = s
	return e, nil
}

func (p *specParser) peek() stok { return p.toks[p.pos] }
func (p *specParser) next() stok { t := p.toks[p.pos]; p.pos++; return t }
func (p *specParser) isOp(op string) bool {
	t := p.peek()
	return t.kind == "op" && t.text == op
}
func (p *specParser) accept(op string) bool {
	if p.isOp(op) {
		p.pos++
		return true
	}
	return false
}
func (p *specParser) expect(op string) error {
	if !p.accept(op) {
		return fmt.Errorf("expected %q, found %q", op, p.peek().text)
	}
	return nil
}

func (p *specParser) expr() (*Expr, error) {
	t := p.peek()
	if t.kind == "ident" && (t.text == "forall" || t.text == "exists") {
		p.next()
		q := &Expr{Kind: EQuant, Op: t.text}
		for {
			n := p.next()
			if n.kind != "ident" {
				return nil, fmt.Errorf("expected bound variable name")
			}
			ty, err := p.typeName()
			if err != nil {
				return nil, err
			}
			q.Vars = append(q.Vars, QVar{n.text, ty})
			if !p.accept(",") {
				break
			}
		}
		if err := p.expect("::"); err != nil {
			return nil, err
		}
		body, err := p.expr()
		if err != nil {
			return nil, err
		}
		q.Args = []*Expr{body}
		return q, nil
	}
	return p.impl()
}

func (p *specParser) typeName() (string, error) {
	var sb strings.Builder
	for p.accept("[") {
		if err := p.expect("]"); err != nil {
			return "", err
		}
		sb.WriteString("[]")
	}
	for p.accept("*") {
		sb.WriteString("*")
	}
	t := p.next()
	if t.kind != "ident" {
		return "", fmt.Errorf("expected type name, found %q", t.text)
	}
	sb.WriteString(t.text)
	for p.accept(".") {
		t2 := p.next()
		sb.WriteString("." + t2.text)
	}
	return sb.String(), nil
}

func (p *specParser) impl() (*Expr, error) {
	l, err := p.or()
	if err != nil {
		return nil, err
	}
	for _, op := range []string{"==>", "<==>"} {
		if p.isOp(op) {
			p.next()
			// allow a quantifier on the right of an implication
			r, err := p.expr()
			if err != nil {
				return nil, err
			}
			return &Expr{Kind: EBinary, Op: op, Args: []*Expr{l, r}}, nil
		}
	}
	if p.accept("?") {
		a, err := p.expr()
		if err != nil {
			return nil, err
		}
		if err := p.expect(":"); err != nil {
			return nil, err
		}
		b, err := p.expr()
		if err != nil {
			return nil, err
		}
		return &Expr{Kind: ECall, Args: []*Expr{{Kind: EIdent, Name: "ite"}, l, a, b}}, nil
	}
	return l, nil
}

func (p *specParser) binLevel(sub func() (*Expr, error), ops ...string) (*Expr, error) {
	l, err := sub()
	if err != nil {
		return nil, err
	}
	for {
		found := ""
		for _, op := range ops {
			if p.isOp(op) {
				found = op
				break
			}
		}
		if found == "" {
			return l, nil
		}
		p.next()
		r, err := sub()
		if err != nil {
			return nil, err
		}
		l = &Expr{Kind: EBinary, Op: found, Args: []*Expr{l, r}}
	}
}

func (p *specParser) or() (*Expr, error)  { return p.binLevel(p.and, "||") }
func (p *specParser) and() (*Expr, error) { return p.binLevel(p.cmp, "&&") }
func (p *specParser) cmp() (*Expr, error) {
	l, err := p.add()
	if err != nil {
		return nil, err
	}
	for _, op := range []string{"==", "!=", "<=", ">=", "<", ">"} {
		if p.isOp(op) {
			p.next()
			r, err := p.add()
			if err != nil {
				return nil, err
			}
			return &Expr{Kind: EBinary, Op: op, Args: []*Expr{l, r}}, nil
		}
	}
	return l, nil
}
func (p *specParser) add() (*Expr, error) { return p.binLevel(p.mul, "+", "-", "|", "^") }
func (p *specParser) mul() (*Expr, error) {
	return p.binLevel(p.unary, "*", "/", "%", "<<", ">>", "&^", "&")
}

func (p *specParser) unary() (*Expr, error) {
	for _, op := range []string{"!", "-", "^", "*", "&"} {
		if p.isOp(op) {
			p.next()
			x, err := p.unary()
			if err != nil {
				return nil, err
			}
			return &Expr{Kind: EUnary, Op: op, Args: []*Expr{x}}, nil
		}
	}
	return p.postfix()
}

func (p *specParser) postfix() (*Expr, error) {
	x, err := p.primary()
	if err != nil {
		return nil, err
	}
	for {
		switch {
		case p.accept("."):
			t := p.next()
			if t.kind != "ident" {
				return nil, fmt.Errorf("expected field name after '.'")
			}
			x = &Expr{Kind: EField, Op: t.text, Args: []*Expr{x}}
		case p.accept("["):
			var lo, hi *Expr
			if !p.isOp(":") && !p.isOp("..") {
				lo, err = p.expr()
				if err != nil {
					return nil, err
				}
			}
			if p.accept(":") || p.accept("..") {
				if !p.isOp("]") {
					hi, err = p.expr()
					if err != nil {
						return nil, err
					}
				}
				if err := p.expect("]"); err != nil {
					return nil, err
				}
				x = &Expr{Kind: ESlice, Args: []*Expr{x, lo, hi}}
			} else {
				if err := p.expect("]"); err != nil {
					return nil, err
				}
				x = &Expr{Kind: EIndex, Args: []*Expr{x, lo}}
			}
		case p.accept("("):
			args := []*Expr{x}
			if !p.isOp(")") {
				for {
					a, err := p.expr()
					if err != nil {
						return nil, err
					}
					args = append(args, a)
					if !p.accept(",") {
						break
					}
				}
			}
			if err := p.expect(")"); err != nil {
				return nil, err
			}
			x = &Expr{Kind: ECall, Args: args}
		default:
			return x, nil
		}
	}
}

func (p *specParser) primary() (*Expr, error) {
	t := p.next()
	switch t.kind {
	case "ident":
		switch t.text {
		case "true":
			return &Expr{Kind: EBool, B: true}, nil
		case "false":
			return &Expr{Kind: EBool, B: false}, nil
		case "nil":
			return &Expr{Kind: ENil}, nil
		}
		return &Expr{Kind: EIdent, Name: t.text}, nil
	case "int":
		v, ok := new(big.Int).SetString(strings.ReplaceAll(t.text, "_", ""), 0)
		if !ok {
			return nil, fmt.Errorf("bad integer literal %q", t.text)
		}
		return &Expr{Kind: EInt, Val: v}, nil
	case "str":
		return &Expr{Kind: EStr, Name: t.text}, nil
	case "op":
		if t.text == "(" {
			e, err := p.expr()
			if err != nil {
				return nil, err
			}
			if err := p.expect(")"); err != nil {
				return nil, err
			}
			return e, nil
		}
	}
	return nil, fmt.Errorf("unexpected stok %q", t.text)
}
