package main

import (
	"context"
	"fmt"
	"os"
	"regexp"
	"strings"
	"sync"
	"time"
)

// Cube-and-conquer over the path structure of a VC.
//
// State merges branch on declared selector constants (sel!<merge>!<i>, see mergeStates) and
// append-like calls on the named capacity tests (fits!<n>). With those fixed, the heap terms
// of a query are free of if-then-else and each case is usually decided in a fraction of a
// second, while the solvers' own search interleaves the case split with arithmetic and often
// does not finish. solveSplit therefore splits a query that is not decided quickly into
// cubes over these booleans, adaptively and only on the ones that still occur in the cone of
// influence of the assertions after the query text has been simplified under the cube.
//
// Soundness: the cubes of a variable are exhaustive (a k-way merge: "i is the first selector
// that holds", i = 0..k-1, plus "no selector holds" for paths that do not pass the merge); the
// simplification only uses the cube's literals; constraints that are dropped (the defining
// equations of the selectors a cube sets to false) only weaken a query, so unsat answers
// carry over, and a sat answer of a weakened query is re-checked on the unweakened one.

type qform struct {
	kind string // declare | define | assert | other
	name string // define: the defined name
	head string // define: "(define-fun name () Sort " ; the body follows
	body *SExp  // define: body; assert: the asserted formula
	raw  string
}

type cubeQuery struct {
	forms  []qform
	tail   string // from (check-sat) on
	vars   []splitVar
	selDef map[string]bool // names of selector constants
	bvHeavy bool           // the query shifts 256-bit values: split on shift-amount bits first
}

var selNameRe = regexp.MustCompile(`^sel![0-9]+![0-9]+$`)
var fitsNameRe = regexp.MustCompile(`^fits![0-9]+$`)

// splitVar: one case distinction. A capacity test has two values; the selectors of a k-way
// merge form one variable with k values.
type splitVar struct {
	names []string
	fits  bool
	bits  bool // names are pseudo-literals bit!<const>!<i>: all combinations are enumerated
}

// cubes returns, per value, the literal assignment it makes.
func (v splitVar) cubes() []map[string]bool {
	if v.bits {
		var out []map[string]bool
		for c := 0; c < 1<<len(v.names); c++ {
			m := map[string]bool{}
			for i, n := range v.names {
				m[n] = c&(1<<i) != 0
			}
			out = append(out, m)
		}
		return out
	}
	if v.fits {
		return []map[string]bool{{v.names[0]: true}, {v.names[0]: false}}
	}
	var out []map[string]bool
	for i := range v.names {
		m := map[string]bool{}
		for j := 0; j < i; j++ {
			m[v.names[j]] = false
		}
		m[v.names[i]] = true
		out = append(out, m)
	}
	// ... and the case that the merge point is not on the path at all (no selector holds)
	none := map[string]bool{}
	for _, n := range v.names {
		none[n] = false
	}
	out = append(out, none)
	return out
}

func parseCubeQuery(q string) (*cubeQuery, error) {
	idx := strings.LastIndex(q, "(check-sat)")
	if idx < 0 {
		return nil, fmt.Errorf("no check-sat")
	}
	es, err := parseSExps(q[:idx])
	if err != nil {
		return nil, err
	}
	cq := &cubeQuery{tail: q[idx:], selDef: map[string]bool{}, bvHeavy: isBVHeavy(q)}
	group := map[string]int{}
	for _, e := range es {
		f := qform{kind: "other"}
		if len(e.List) > 0 {
			switch e.List[0].Atom {
			case "define-fun":
				if len(e.List) == 5 && len(e.List[2].List) == 0 {
					f.kind = "define"
					f.name = e.List[1].Atom
					f.head = "(define-fun " + f.name + " () " + e.List[3].String() + " "
					f.body = e.List[4]
					if fitsNameRe.MatchString(f.name) {
						cq.vars = append(cq.vars, splitVar{names: []string{f.name}, fits: true})
					}
				}
			case "declare-const":
				f.kind = "declare"
				if len(e.List) == 3 && strings.HasPrefix(e.List[1].Atom, "p_") && e.List[2].String() == "(_ BitVec 8)" {
					// an 8-bit parameter (a shift amount, a bit length): splitting on its low bits turns
					// barrel shifters over 256-bit values into constant shifts
					n := e.List[1].Atom
					for _, r := range [][2]int{{0, 3}, {3, 6}} {
						v := splitVar{bits: true}
						for i := r[0]; i < r[1]; i++ {
							v.names = append(v.names, fmt.Sprintf("bit!%s!%d", n, i))
						}
						cq.vars = append(cq.vars, v)
					}
				}
				if len(e.List) == 3 && selNameRe.MatchString(e.List[1].Atom) {
					n := e.List[1].Atom
					cq.selDef[n] = true
					g := n[:strings.LastIndex(n, "!")]
					gi, ok := group[g]
					if !ok {
						gi = len(cq.vars)
						group[g] = gi
						cq.vars = append(cq.vars, splitVar{})
					}
					cq.vars[gi].names = append(cq.vars[gi].names, n)
				}
			case "assert":
				if len(e.List) == 2 {
					f.kind = "assert"
					f.body = e.List[1]
				}
			}
		}
		if f.kind == "other" || f.kind == "declare" {
			f.raw = e.String()
		}
		cq.forms = append(cq.forms, f)
	}
	return cq, nil
}

var sTrue, sFalse = &SExp{Atom: "true"}, &SExp{Atom: "false"}

func isT(e *SExp) bool { return e.List == nil && e.Atom == "true" }
func isF(e *SExp) bool { return e.List == nil && e.Atom == "false" }

// simp rewrites e under the assignment asg (names known to be true / false).
func simp(e *SExp, asg map[string]bool) *SExp {
	if e.List == nil {
		if v, ok := asg[e.Atom]; ok {
			if v {
				return sTrue
			}
			return sFalse
		}
		return e
	}
	if len(e.List) == 0 {
		return e
	}
	head := e.List[0]
	if head.List == nil {
		switch head.Atom {
		case "ite":
			if len(e.List) == 4 {
				c := simp(e.List[1], asg)
				if isT(c) {
					return simp(e.List[2], asg)
				}
				if isF(c) {
					return simp(e.List[3], asg)
				}
				return &SExp{List: []*SExp{head, c, simp(e.List[2], asg), simp(e.List[3], asg)}}
			}
		case "and", "or":
			isAnd := head.Atom == "and"
			out := []*SExp{head}
			for _, a := range e.List[1:] {
				s := simp(a, asg)
				if (isAnd && isT(s)) || (!isAnd && isF(s)) {
					continue
				}
				if (isAnd && isF(s)) || (!isAnd && isT(s)) {
					return s
				}
				out = append(out, s)
			}
			switch len(out) {
			case 1:
				if isAnd {
					return sTrue
				}
				return sFalse
			case 2:
				return out[1]
			}
			return &SExp{List: out}
		case "not":
			if len(e.List) == 2 {
				s := simp(e.List[1], asg)
				if isT(s) {
					return sFalse
				}
				if isF(s) {
					return sTrue
				}
				return &SExp{List: []*SExp{head, s}}
			}
		case "=>":
			if len(e.List) == 3 {
				a, b := simp(e.List[1], asg), simp(e.List[2], asg)
				if isF(a) || isT(b) {
					return sTrue
				}
				if isT(a) {
					return b
				}
				if isF(b) {
					return simp(&SExp{List: []*SExp{{Atom: "not"}, a}}, nil)
				}
				return &SExp{List: []*SExp{head, a, b}}
			}
		case "=":
			if len(e.List) == 3 {
				a, b := simp(e.List[1], asg), simp(e.List[2], asg)
				switch {
				case isT(a):
					return b
				case isT(b):
					return a
				case isF(a):
					return simp(&SExp{List: []*SExp{{Atom: "not"}, b}}, nil)
				case isF(b):
					return simp(&SExp{List: []*SExp{{Atom: "not"}, a}}, nil)
				}
				return &SExp{List: []*SExp{head, a, b}}
			}
		case "forall", "exists", "lambda", "let", "!":
			// binders: the bound names never clash with assigned ones (sel!/fits!/defined names)
		}
	}
	out := make([]*SExp, len(e.List))
	changed := false
	for i, a := range e.List {
		out[i] = simp(a, asg)
		if out[i] != a {
			changed = true
		}
	}
	if !changed {
		return e
	}
	return &SExp{List: out}
}

func collectAtoms(e *SExp, into map[string]bool) {
	if e.List == nil {
		into[e.Atom] = true
		return
	}
	for _, a := range e.List {
		collectAtoms(a, into)
	}
}

// specialise builds the query text for a cube: definitions and assertions simplified under the
// cube's literals, definitions outside the cone of influence dropped. It returns the text, the
// split variables still relevant (latest first), and whether constraints were dropped.
func (cq *cubeQuery) specialise(cube map[string]bool) (string, []splitVar, bool) {
	asg := map[string]bool{}
	for k, v := range cube {
		asg[k] = v
	}
	bodies := make([]*SExp, len(cq.forms))
	var fitsAsserts []*SExp
	weakened := false
	// once a merge's incoming path is chosen, the other selectors of that merge are irrelevant
	// (the merged terms no longer mention them): their defining equations are dropped as well
	decided := map[string]bool{}
	for _, v := range cq.vars {
		if v.fits {
			continue
		}
		chosen := false
		for _, n := range v.names {
			if b, ok := cube[n]; ok && b {
				chosen = true
			}
		}
		if chosen {
			for _, n := range v.names {
				if b, ok := cube[n]; !(ok && b) {
					decided[n] = true
				}
			}
		}
	}
	for i, f := range cq.forms {
		switch f.kind {
		case "define":
			b := simp(f.body, asg)
			bodies[i] = b
			if v, ok := cube[f.name]; ok && fitsNameRe.MatchString(f.name) {
				// the name is replaced by its cube value everywhere; the definition itself becomes
				// a constraint (a case split must assert its case)
				if v {
					fitsAsserts = append(fitsAsserts, b)
				} else {
					fitsAsserts = append(fitsAsserts, &SExp{List: []*SExp{{Atom: "not"}, b}})
				}
			}
			if !fitsNameRe.MatchString(f.name) || true {
				if isT(b) {
					asg[f.name] = true
				} else if isF(b) {
					asg[f.name] = false
				}
			}
		case "assert":
			// the defining equation of a selector the cube sets to false is dropped: it would
			// only say that another path was not taken
			if len(f.body.List) == 3 && f.body.List[0].Atom == "=" && cq.selDef[f.body.List[1].Atom] {
				if v, ok := cube[f.body.List[1].Atom]; (ok && !v) || decided[f.body.List[1].Atom] {
					bodies[i] = sTrue
					weakened = true
					continue
				}
			}
			bodies[i] = simp(f.body, asg)
		}
	}
	// cone of influence
	defIdx := map[string]int{}
	for i, f := range cq.forms {
		if f.kind == "define" {
			defIdx[f.name] = i
		}
	}
	used := map[string]bool{}
	var work []string
	mark := func(e *SExp) {
		at := map[string]bool{}
		collectAtoms(e, at)
		for a := range at {
			if !used[a] {
				used[a] = true
				if _, ok := defIdx[a]; ok {
					work = append(work, a)
				}
			}
		}
	}
	for i, f := range cq.forms {
		if f.kind == "assert" {
			mark(bodies[i])
		}
	}
	for _, a := range fitsAsserts {
		mark(a)
	}
	// the get-value terms of the tail
	if es, err := parseSExps(cq.tail); err == nil {
		for _, e := range es {
			mark(e)
		}
	}
	for len(work) > 0 {
		n := work[len(work)-1]
		work = work[:len(work)-1]
		mark(bodies[defIdx[n]])
	}
	var sb strings.Builder
	for i, f := range cq.forms {
		switch f.kind {
		case "define":
			if used[f.name] {
				sb.WriteString(f.head)
				sb.WriteString(bodies[i].String())
				sb.WriteString(")\n")
			}
		case "assert":
			if !isT(bodies[i]) {
				sb.WriteString("(assert ")
				sb.WriteString(bodies[i].String())
				sb.WriteString(")\n")
			}
		default:
			sb.WriteString(f.raw)
			sb.WriteByte('\n')
		}
	}
	for _, a := range fitsAsserts {
		sb.WriteString("(assert ")
		sb.WriteString(a.String())
		sb.WriteString(")\n")
	}
	// the cube itself (literals on declared constants; fits literals are substituted and asserted above)
	for k, v := range cube {
		if cq.selDef[k] {
			if v {
				fmt.Fprintf(&sb, "(assert %s)\n", k)
			} else {
				fmt.Fprintf(&sb, "(assert (not %s))\n", k)
			}
		}
		if c, i, ok := bitLit(k); ok {
			b := "#b0"
			if v {
				b = "#b1"
			}
			fmt.Fprintf(&sb, "(assert (= ((_ extract %d %d) %s) %s))\n", i, i, c, b)
		}
	}
	sb.WriteString(cq.tail)
	var rel []splitVar
	order := make([]int, 0, len(cq.vars))
	if cq.bvHeavy {
		// 256-bit shifts by a symbolic amount dominate: fix the amount's bits first
		for i := range cq.vars {
			if cq.vars[i].bits {
				order = append(order, i)
			}
		}
		for i := len(cq.vars) - 1; i >= 0; i-- {
			if !cq.vars[i].bits {
				order = append(order, i)
			}
		}
	} else {
		for i := len(cq.vars) - 1; i >= 0; i-- {
			order = append(order, i)
		}
	}
	for _, i := range order {
		v := cq.vars[i]
		assigned := false
		for _, n := range v.names {
			if _, ok := cube[n]; ok {
				assigned = true
			}
		}
		if assigned {
			continue
		}
		for _, n := range v.names {
			if c, _, ok := bitLit(n); ok {
				n = c
			}
			if used[n] {
				rel = append(rel, v)
				break
			}
		}
	}
	return sb.String(), rel, weakened
}

// fullWithCube: the original query with the cube's literals asserted, nothing dropped.
func (cq *cubeQuery) fullWithCube(q string, cube map[string]bool) string {
	idx := strings.LastIndex(q, "(check-sat)")
	var sb strings.Builder
	for k, v := range cube {
		if c, i, ok := bitLit(k); ok {
			b := "#b0"
			if v {
				b = "#b1"
			}
			fmt.Fprintf(&sb, "(assert (= ((_ extract %d %d) %s) %s))\n", i, i, c, b)
			continue
		}
		if v {
			fmt.Fprintf(&sb, "(assert %s)\n", k)
		} else {
			fmt.Fprintf(&sb, "(assert (not %s))\n", k)
		}
	}
	return q[:idx] + sb.String() + q[idx:]
}

const (
	splitMaxRuns  = 160
	splitMaxDepth = 10
	splitNodeSecs = 2
)

// solveSplit: adaptive cube-and-conquer with z3-new. A cube that is not decided within a
// short time limit is split on the latest relevant variable; the result is unsat iff every
// leaf is unsat and sat as soon as one leaf is (confirmed) sat. ok=false: gave up.
func solveSplit(q string, secs int, tag string) (SolveResult, bool) {
	cq, err := parseCubeQuery(q)
	if err != nil || len(cq.vars) == 0 {
		return SolveResult{}, false
	}
	ctx, cancel := context.WithCancel(context.Background())
	defer cancel()
	var mu sync.Mutex
	runs := 0
	var sat *SolveResult
	sem := make(chan struct{}, 12)
	start := time.Now()
	nodeSecs := splitNodeSecs
	if secs < nodeSecs {
		nodeSecs = secs
	}
	nodeMs := 0
	if v := os.Getenv("GOCV_SPLITNODEMS"); v != "" {
		fmt.Sscanf(v, "%d", &nodeMs) // debugging: force deep splitting
	}
	debug := os.Getenv("GOCV_SPLITDEBUG") != ""
	var node func(cube map[string]bool, depth int, try bool) string
	node = func(cube map[string]bool, depth int, try bool) string {
		if ctx.Err() != nil {
			return "cancelled"
		}
		text, rel, weakened := cq.specialise(cube)
		leaf := len(rel) == 0 || depth >= splitMaxDepth
		if try && cq.bvHeavy && len(rel) > 0 && rel[0].bits {
			try = false // keep splitting until the shift amount is fixed
		}
		if try {
			mu.Lock()
			runs++
			n := runs
			over := runs > splitMaxRuns
			mu.Unlock()
			if over {
				cancel()
				return "budget"
			}
			// deeper cubes get more time: once the path is fixed the remaining splits
			// matter less than simply letting the solver finish
			t := nodeSecs * (1 + depth/2)
			if leaf || t > secs {
				t = secs
			}
			sem <- struct{}{}
			var r SolveResult
			if nodeMs > 0 && !leaf {
				r = runSolverMs(ctx, solvers[0], text, nodeMs, fmt.Sprintf("%s.c%d", tag, n))
			} else {
				r = runSolver(ctx, solvers[0], text, t, fmt.Sprintf("%s.c%d", tag, n))
			}
			if r.Status == "sat" && weakened {
				// constraints were dropped: confirm on the full query restricted to this cube
				r = runSolver(ctx, solvers[0], cq.fullWithCube(q, cube), secs, fmt.Sprintf("%s.c%dc", tag, n))
				if r.Status != "sat" && r.Status != "unsat" {
					r.Status = "unknown"
				}
			}
			<-sem
			if debug {
				fmt.Fprintf(os.Stderr, "split %s run %d depth %d rel %d: %s %.2fs %v\n", tag, n, depth, len(rel), r.Status, r.Secs, cube)
			}
			switch r.Status {
			case "unsat":
				return "unsat"
			case "sat":
				mu.Lock()
				if sat == nil {
					sat = &r
				}
				mu.Unlock()
				cancel()
				return "sat"
			}
		}
		if leaf {
			return "unknown"
		}
		vals := rel[0].cubes()
		res := make([]string, len(vals))
		var wg sync.WaitGroup
		for i, v := range vals {
			wg.Add(1)
			go func(i int, v map[string]bool) {
				defer wg.Done()
				c := map[string]bool{}
				for k, b := range cube {
					c[k] = b
				}
				for k, b := range v {
					c[k] = b
				}
				res[i] = node(c, depth+1, true)
			}(i, v)
		}
		wg.Wait()
		for _, r := range res {
			if r != "unsat" {
				return r
			}
		}
		return "unsat"
	}
	st := node(map[string]bool{}, 0, false)
	el := time.Since(start).Seconds()
	mu.Lock()
	defer mu.Unlock()
	if sat != nil {
		out := *sat
		out.Secs = el
		out.Solver = solvers[0].name + "+split"
		return out, true
	}
	if st == "unsat" {
		return SolveResult{Status: "unsat", Solver: solvers[0].name + "+split", Secs: el}, true
	}
	return SolveResult{}, false
}

// bitLit decodes the pseudo-literal bit!<const>!<i>.
func bitLit(k string) (string, int, bool) {
	if !strings.HasPrefix(k, "bit!") {
		return "", 0, false
	}
	j := strings.LastIndex(k, "!")
	var i int
	if _, err := fmt.Sscanf(k[j+1:], "%d", &i); err != nil {
		return "", 0, false
	}
	return k[4:j], i, true
}

// isBVHeavy: the query contains shifts over 256-bit vectors and an 8-bit parameter to split on.
func isBVHeavy(q string) bool {
	return strings.Contains(q, "(_ BitVec 256)") || strings.Contains(q, "zero_extend 248") || strings.Contains(q, "(concat (concat")
}
